package main

import (
	"bytes"
	"context"
	"crypto/tls"
	"fmt"
	"log"
	"math/rand"
	"net"
	"os"
	"reflect"
	"runtime"
	"strings"
	"sync"
	"time"

	kmip "github.com/smira/go-kmip"

	"kvharness/internal/drv"
	"kvharness/internal/gen"
	"kvharness/internal/rec"
	"kvharness/internal/tlsm"
)

// ---- C12: the library under the race detector -------------------------------------------------------------
//
// This runner is meaningful when kvrun was built with -race (the `check` script does that for C12 and sets
// GORACE=log_path=…): every report the detector writes is turned into a finding.

func init() { props["C12"] = runC12 }

// plainLog: a Server.Log whose destination is an ordinary bytes.Buffer - not safe for concurrent use, and it need not be:
// "A Logger ... guarantees to serialize access to the Writer". Everything the Server logs, from whatever goroutine, goes
// through the one Logger it was given; under the race detector any write that bypasses that Logger's lock shows up.
func plainLog() *log.Logger { return log.New(&bytes.Buffer{}, "[kmip] ", log.LstdFlags) }

var raceEnabled = false // set by race_on.go under the race build tag

func stressServer(rng *rand.Rand, nConn, nReq int, shutdownAfter time.Duration) (served int, err error) {
	s := &kmip.Server{ReadTimeout: 2 * time.Second, WriteTimeout: 2 * time.Second, Log: plainLog()}
	s.SessionAuthHandler = func(c net.Conn) (interface{}, error) { return 1, nil }
	s.RequestAuthHandler = func(sc *kmip.SessionContext, a *kmip.Authentication) (interface{}, error) { return 2, nil }
	s.Handle(kmip.OPERATION_ACTIVATE, func(ctx *kmip.RequestContext, item *kmip.RequestBatchItem) (interface{}, error) {
		return kmip.ActivateResponse{UniqueIdentifier: "x"}, nil
	})
	s.Handle(kmip.OPERATION_DESTROY, func(ctx *kmip.RequestContext, item *kmip.RequestBatchItem) (interface{}, error) {
		panic("boom")
	})
	l := rec.NewListener()
	init := make(chan struct{})
	ret := make(chan error, 1)
	go func() { ret <- s.Serve(l, init) }()
	<-init
	var wg sync.WaitGroup
	var mu sync.Mutex
	for i := 0; i < nConn; i++ {
		sc, cc := rec.Pipe()
		l.Push(rec.AcceptStep{Conn: rec.NewConn(sc, i+1)})
		wg.Add(1)
		go func(cc *rec.MemConn, i int) {
			defer wg.Done()
			defer cc.Close()
			enc, dec := kmip.NewEncoder(cc), kmip.NewDecoder(cc)
			for k := 0; k < nReq; k++ {
				req := kmip.Request{Header: kmip.RequestHeader{Version: kmip.ProtocolVersion{Major: 1, Minor: 4}, BatchCount: 2},
					BatchItems: []kmip.RequestBatchItem{
						{Operation: kmip.OPERATION_ACTIVATE, RequestPayload: kmip.ActivateRequest{UniqueIdentifier: "a"}},
						{Operation: kmip.OPERATION_DISCOVER_VERSIONS, RequestPayload: kmip.DiscoverVersionsRequest{}}}}
				if k%5 == 4 {
					req.BatchItems[0] = kmip.RequestBatchItem{Operation: kmip.OPERATION_DESTROY, RequestPayload: kmip.DestroyRequest{UniqueIdentifier: "d"}}
				}
				if k%3 == 0 {
					req.Header.Authentication = kmip.Authentication{CredentialType: kmip.CREDENTIAL_TYPE_USERNAME_AND_PASSWORD, CredentialValue: kmip.CredentialUsernamePassword{Username: "u", Password: "p"}}
				}
				if enc.Encode(&req) != nil {
					return
				}
				var resp kmip.Response
				_ = cc.SetReadDeadline(time.Now().Add(3 * time.Second))
				if dec.Decode(&resp) != nil {
					return
				}
				mu.Lock()
				served++
				mu.Unlock()
			}
		}(cc, i)
	}
	time.Sleep(shutdownAfter)
	ctx, cancel := context.WithTimeout(context.Background(), 20*time.Second)
	defer cancel()
	sdErr := make(chan error, 1)
	go func() { sdErr <- s.Shutdown(ctx) }()
	wg.Wait()
	if e := <-sdErr; e != nil {
		err = fmt.Errorf("shutdown: %v", e)
	}
	if e := <-ret; e != nil {
		err = fmt.Errorf("serve: %v", e)
	}
	return
}

// stressBareServer: a Server used exactly as its zero value allows - no Handle call, no callbacks, only the built-in
// Discover Versions - hit by its very first requests on several connections at the same instant (anything the server
// initialises lazily is initialised under this load)
func stressBareServer(nConn int) error {
	s := &kmip.Server{}
	l := rec.NewListener()
	init := make(chan struct{})
	ret := make(chan error, 1)
	go func() { ret <- s.Serve(l, init) }()
	<-init
	start := make(chan struct{})
	var wg sync.WaitGroup
	errs := make(chan error, nConn)
	for i := 0; i < nConn; i++ {
		sc, cc := rec.Pipe()
		l.Push(rec.AcceptStep{Conn: rec.NewConn(sc, i+1)})
		wg.Add(1)
		go func(cc *rec.MemConn) {
			defer wg.Done()
			defer cc.Close()
			_ = cc.SetDeadline(time.Now().Add(5 * time.Second))
			<-start
			for k := 0; k < 3; k++ {
				req := kmip.Request{Header: kmip.RequestHeader{Version: kmip.ProtocolVersion{Major: 1, Minor: 4}, BatchCount: 1},
					BatchItems: []kmip.RequestBatchItem{{Operation: kmip.OPERATION_DISCOVER_VERSIONS, RequestPayload: kmip.DiscoverVersionsRequest{}}}}
				var resp kmip.Response
				if err := kmip.NewEncoder(cc).Encode(&req); err != nil {
					errs <- err
					return
				}
				if err := kmip.NewDecoder(cc).Decode(&resp); err != nil {
					errs <- err
					return
				}
				if len(resp.BatchItems) != 1 || resp.BatchItems[0].ResultStatus != kmip.RESULT_STATUS_SUCCESS {
					errs <- fmt.Errorf("built-in Discover Versions not served: %+v", resp.BatchItems)
					return
				}
			}
		}(cc)
	}
	time.Sleep(5 * time.Millisecond)
	close(start)
	wg.Wait()
	ctx, cancel := context.WithTimeout(context.Background(), 5*time.Second)
	defer cancel()
	if err := s.Shutdown(ctx); err != nil {
		return err
	}
	<-ret
	select {
	case e := <-errs:
		return e
	default:
		return nil
	}
}

// stressClients: `n` independent kmip.Client values used from `n` goroutines at once against one TLS-serving Server (started
// through ListenAndServe): Connect, DiscoverVersions, Send, Close, twice each. How the Clients got their *tls.Config is the
// caller's business, and all the usual ways are covered: "own" = a config per Client, each prepared by
// DefaultClientTLSConfig; "shared-prepared" = ONE config prepared once and handed to every Client (a tls.Config is made for that:
// crypto/tls reads it concurrently and never writes to it); "shared-plain" = one config the caller filled in by hand (RootCAs,
// ServerName, certificate; MinVersion left at its zero value) handed to every Client. Independent Clients share nothing the
// library may write to.
func stressClients(flavour string, n int) error {
	ca := tlsm.NewCA("c12-clients-ca")
	scfg := &tls.Config{Certificates: []tls.Certificate{tlsm.Leaf(ca, tlsm.LeafOpts{Host: "127.0.0.1"})}, ClientCAs: ca.Pool}
	kmip.DefaultServerTLSConfig(scfg)
	s := &kmip.Server{Addr: freeAddr(), TLSConfig: scfg, ReadTimeout: 5 * time.Second, WriteTimeout: 5 * time.Second, Log: plainLog()}
	s.Handle(kmip.OPERATION_GET, func(ctx *kmip.RequestContext, item *kmip.RequestBatchItem) (interface{}, error) {
		rq, _ := item.RequestPayload.(kmip.GetRequest)
		return kmip.GetResponse{ObjectType: kmip.OBJECT_TYPE_SYMMETRIC_KEY, UniqueIdentifier: rq.UniqueIdentifier}, nil
	})
	init := make(chan struct{})
	ret := make(chan error, 1)
	go func() { ret <- s.ListenAndServe(init) }()
	<-init
	mk := func() *tls.Config {
		return &tls.Config{RootCAs: ca.Pool, ServerName: "127.0.0.1", Certificates: []tls.Certificate{tlsm.Leaf(ca, tlsm.LeafOpts{Host: "client", Client: true})}}
	}
	var shared *tls.Config
	switch flavour {
	case "shared-prepared":
		shared = mk()
		kmip.DefaultClientTLSConfig(shared)
	case "shared-plain":
		shared = mk()
	}
	start := make(chan struct{})
	var wg sync.WaitGroup
	errs := make(chan error, n)
	for i := 0; i < n; i++ {
		cfg := shared
		if cfg == nil {
			cfg = mk()
			kmip.DefaultClientTLSConfig(cfg)
		}
		wg.Add(1)
		go func(i int, cfg *tls.Config) {
			defer wg.Done()
			<-start
			for k := 0; k < 2; k++ {
				cl := &kmip.Client{Endpoint: s.Addr, TLSConfig: cfg, ReadTimeout: 5 * time.Second, WriteTimeout: 5 * time.Second}
				if err := cl.Connect(); err != nil {
					errs <- fmt.Errorf("client %d: Connect: %v", i, err)
					return
				}
				if vs, err := cl.DiscoverVersions(nil); err != nil || len(vs) == 0 {
					errs <- fmt.Errorf("client %d: DiscoverVersions: %v %v", i, vs, err)
					cl.Close()
					return
				}
				id := fmt.Sprintf("key-%d-%d", i, k)
				resp, err := cl.Send(kmip.OPERATION_GET, kmip.GetRequest{UniqueIdentifier: id})
				if g, ok := resp.(kmip.GetResponse); err != nil || !ok || g.UniqueIdentifier != id {
					errs <- fmt.Errorf("client %d: Send returned %+v, %v (wanted the answer to %s)", i, resp, err, id)
					cl.Close()
					return
				}
				cl.Close()
			}
		}(i, cfg)
	}
	close(start)
	wg.Wait()
	ctx, cancel := context.WithTimeout(context.Background(), 5*time.Second)
	defer cancel()
	if err := s.Shutdown(ctx); err != nil {
		return err
	}
	<-ret
	select {
	case e := <-errs:
		return e
	default:
		return nil
	}
}

// stressHandshakeShutdown: a TLS-serving Server with one established session and `pending` accepted connections whose
// peers have not started their TLS handshake yet; Shutdown is issued, the established session ends, and only then the pending
// peers handshake, send one request and leave. Everything the Server does to track a session (its WaitGroup, its done channel)
// is exercised while Shutdown is already waiting. Besides what the race detector says, Shutdown must not have returned while
// an accepted connection was still open: a session that registers itself only after Shutdown began waiting is the
// documented sync.WaitGroup misuse (Add from zero concurrent with Wait).
func stressHandshakeShutdown(pending int) error {
	ca := tlsm.NewCA("c12-ca")
	serverCert := tlsm.Leaf(ca, tlsm.LeafOpts{Host: "kmip.test"})
	clientCert := tlsm.Leaf(ca, tlsm.LeafOpts{Host: "client.test", Client: true})
	cfg := &tls.Config{Certificates: []tls.Certificate{serverCert}, ClientCAs: ca.Pool}
	kmip.DefaultServerTLSConfig(cfg)
	s := &kmip.Server{TLSConfig: cfg, Log: plainLog()}
	l := rec.NewListener()
	init := make(chan struct{})
	ret := make(chan error, 1)
	go func() { ret <- s.Serve(l, init) }()
	<-init
	type peer struct {
		rc *rec.Conn
		cc *rec.MemConn
		tc *tls.Conn
	}
	var peers []peer
	for i := 0; i <= pending; i++ {
		sc, cc := rec.Pipe()
		rc := rec.NewConn(sc, i+1)
		l.Push(rec.AcceptStep{Conn: tls.Server(rc, cfg)})
		_ = cc.SetDeadline(time.Now().Add(10 * time.Second))
		peers = append(peers, peer{rc, cc, tls.Client(cc, &tls.Config{RootCAs: ca.Pool, ServerName: "kmip.test", Certificates: []tls.Certificate{clientCert}})})
	}
	exchange := func(p peer) error {
		req := kmip.Request{Header: kmip.RequestHeader{Version: kmip.ProtocolVersion{Major: 1, Minor: 4}, BatchCount: 1},
			BatchItems: []kmip.RequestBatchItem{{Operation: kmip.OPERATION_DISCOVER_VERSIONS, RequestPayload: kmip.DiscoverVersionsRequest{}}}}
		if err := kmip.NewEncoder(p.tc).Encode(&req); err != nil {
			return err
		}
		var resp kmip.Response
		return kmip.NewDecoder(p.tc).Decode(&resp)
	}
	if err := peers[0].tc.Handshake(); err != nil {
		return fmt.Errorf("handshake of the first client: %v", err)
	}
	if err := exchange(peers[0]); err != nil {
		return fmt.Errorf("first client not served: %v", err)
	}
	// all connections have been accepted before Shutdown starts
	for l.Pending() > 0 {
		time.Sleep(time.Millisecond)
	}
	time.Sleep(5 * time.Millisecond)
	ctx, cancel := context.WithTimeout(context.Background(), 20*time.Second)
	defer cancel()
	sdDone := make(chan error, 1)
	go func() { sdDone <- s.Shutdown(ctx) }()
	time.Sleep(10 * time.Millisecond)
	peers[0].tc.Close()
	peers[0].cc.Close()
	time.Sleep(20 * time.Millisecond)
	var problem error
	select {
	case e := <-sdDone:
		open := 0
		for _, p := range peers[1:] {
			select {
			case <-p.rc.Closed():
			default:
				open++
			}
		}
		if open > 0 {
			problem = fmt.Errorf("Shutdown returned (%v) while %d accepted connection(s) were still open in their TLS handshake: their sessions were not registered with the Server when Shutdown began to wait", e, open)
		}
		sdDone <- e
	default:
	}
	var wg sync.WaitGroup
	for _, p := range peers[1:] {
		wg.Add(1)
		go func(p peer) {
			defer wg.Done()
			if p.tc.Handshake() == nil {
				_ = exchange(p)
			}
			p.tc.Close()
			p.cc.Close()
		}(p)
	}
	wg.Wait()
	if e := <-sdDone; e != nil && problem == nil {
		problem = fmt.Errorf("shutdown: %v", e)
	}
	<-ret
	return problem
}

// stressAcceptBurstShutdown: Shutdown issued while a burst of connections is being accepted - some sessions are just being
// registered and started, some are running, some connections are still queued. Anything a starting session reads from the
// Server without the lock races with what Shutdown writes under it.
func stressAcceptBurstShutdown(rng *rand.Rand, nConn int) error {
	s := &kmip.Server{Log: plainLog()}
	l := rec.NewListener()
	init := make(chan struct{})
	ret := make(chan error, 1)
	go func() { ret <- s.Serve(l, init) }()
	<-init
	var clients []*rec.MemConn
	for i := 0; i < nConn; i++ {
		sc, cc := rec.Pipe()
		clients = append(clients, cc)
		l.Push(rec.AcceptStep{Conn: rec.NewConn(sc, i+1)})
		if i == nConn/2 {
			for spin := rng.Intn(2000); spin > 0; spin-- {
				runtime.Gosched()
			}
		}
	}
	ctx, cancel := context.WithTimeout(context.Background(), 10*time.Second)
	defer cancel()
	sdDone := make(chan error, 1)
	go func() { sdDone <- s.Shutdown(ctx) }()
	for _, cc := range clients {
		cc.Close()
	}
	var err error
	if e := <-sdDone; e != nil {
		err = fmt.Errorf("shutdown: %v", e)
	}
	if e := <-ret; e != nil {
		err = fmt.Errorf("serve: %v", e)
	}
	return err
}

// yieldingWriter hands the processor to other goroutines inside every Write, the way a net.Conn with a slow peer does: anything
// an Encoder still refers to while it writes is exposed to whatever other Encoders do meanwhile
type yieldingWriter struct{ buf bytes.Buffer }

func (w *yieldingWriter) Write(p []byte) (int, error) {
	runtime.Gosched()
	n, err := w.buf.Write(p)
	runtime.Gosched()
	return n, err
}

// interleavedEncoders: independent Encoders, each with its own value and its own (yielding) Writer, on ONE processor, so that
// their Encode calls interleave at every Write; each output must be byte-identical to the same value encoded alone
func interleavedEncoders(seed int64, workers, n int) (diff string) {
	old := runtime.GOMAXPROCS(1)
	defer runtime.GOMAXPROCS(old)
	types := gen.StructTypes()
	var wg sync.WaitGroup
	var mu sync.Mutex
	for w := 0; w < workers; w++ {
		wg.Add(1)
		go func(w int) {
			defer wg.Done()
			g := gen.New(seed*977 + int64(w))
			for i := 0; i < n; i++ {
				name := []string{"Request", "Response", "Attribute", "TemplateAttribute"}[(i+w)%4]
				p := g.NewStruct(types[name])
				var ref bytes.Buffer
				if kmip.NewEncoder(&ref).Encode(p.Interface()) != nil {
					continue
				}
				yw := &yieldingWriter{}
				if err := kmip.NewEncoder(yw).Encode(p.Interface()); err != nil || !bytes.Equal(yw.buf.Bytes(), ref.Bytes()) {
					mu.Lock()
					if diff == "" {
						diff = fmt.Sprintf("type %s: alone %x, interleaved with other Encoders %x (err %v)", name, ref.Bytes(), yw.buf.Bytes(), err)
					}
					mu.Unlock()
				}
			}
		}(w)
	}
	wg.Wait()
	return diff
}

func stressCodec(seed int64, workers, n int) {
	types := gen.StructTypes()
	names := typeNames(types)
	var wg sync.WaitGroup
	for w := 0; w < workers; w++ {
		wg.Add(1)
		go func(w int) {
			defer wg.Done()
			g := gen.New(seed*100 + int64(w))
			for i := 0; i < n; i++ {
				name := names[(i+w)%len(names)]
				if i%2 == 0 {
					name = []string{"Request", "Response"}[i/2%2]
				}
				p := g.NewStruct(types[name])
				var buf bytes.Buffer
				if kmip.NewEncoder(&buf).Encode(p.Interface()) != nil {
					continue
				}
				tgt := reflect.New(types[name])
				_ = kmip.NewDecoder(bytes.NewReader(buf.Bytes())).Decode(tgt.Interface())
			}
		}(w)
	}
	wg.Wait()
}

func runC12(r *Result, d *drv.Driver, tier string, seed int64, replay string) {
	rounds, nConn, nReq, codecN := 6, 12, 30, 300
	if tier == "thorough" {
		rounds, nConn, nReq, codecN = 40, 24, 60, 2000
	}
	r.Rule = fmt.Sprintf("the real library under Go's race detector (kvrun built with -race=%v): %d rounds of %d concurrent sessions x %d two-item requests (auth callbacks, a panicking handler, the built-in Discover Versions) with Shutdown issued at a random moment (every Server of these workloads, the zero-value one excepted, logs through a log.Logger over a plain bytes.Buffer); the same number of rounds of 8 connections sending their first requests simultaneously to a zero-value Server (no Handle, no callbacks); the same number of rounds of a TLS-serving Server shut down while one session is established and 1..3 accepted connections have not begun their handshake; 8x that number of rounds of Shutdown issued while a burst of 8 connections is being accepted; the same number of rounds of 8 independent Clients in parallel against a TLS Server (Connect, DiscoverVersions, Send, Close; each with its own tls.Config, or all handed one config prepared by DefaultClientTLSConfig, or one config the caller filled in by hand); "+
		"16 goroutines encoding/decoding overlapping types through independent Encoders/Decoders; the C11 schedule replays and a batch of C07 session scripts, all in one process. Every detector report is a finding. distinct = one per workload round", raceEnabled, rounds, nConn, nReq)
	rng := rand.New(rand.NewSource(seed))
	total := 0
	for i := 0; i < rounds; i++ {
		after := time.Duration(rng.Intn(8000)) * time.Microsecond
		n, err := stressServer(rng, nConn, nReq, after)
		total += n
		r.eval(fmt.Sprintf("server-round-%d", i), true)
		if err != nil {
			r.find(Finding{Kind: "violation", What: "server did not shut down cleanly under load", Input: fmt.Sprintf("round %d, shutdown after %v", i, after), Actual: err.Error()})
		}
	}
	r.Stats["requests-served-before-shutdown"] = total
	for i := 0; i < rounds; i++ {
		r.eval(fmt.Sprintf("bare-server-round-%d", i), true)
		if err := stressBareServer(8); err != nil {
			r.find(Finding{Kind: "violation", What: "a zero-value Server (no Handle, no callbacks) did not serve concurrent first requests correctly", Input: fmt.Sprintf("round %d", i), Actual: err.Error()})
		}
	}
	for i := 0; i < rounds; i++ {
		r.eval(fmt.Sprintf("handshake-during-shutdown-round-%d", i), true)
		if err := stressHandshakeShutdown(1 + i%3); err != nil {
			r.find(Finding{Kind: "violation", What: "Shutdown of a TLS-serving Server did not account for connections accepted before it but still in their TLS handshake (session registered after the wait began)", Input: fmt.Sprintf("round %d: one established session, %d accepted connection(s) not yet handshaking, Shutdown, established session ends, pending peers handshake afterwards", i, 1+i%3), Actual: err.Error()})
		}
	}
	for i := 0; i < rounds*8; i++ {
		r.eval(fmt.Sprintf("accept-burst-shutdown-round-%d", i), true)
		crumb(fmt.Sprintf("C12 accept-burst round %d: 8 connections pushed, Shutdown while they are being accepted", i))
		if err := stressAcceptBurstShutdown(rng, 8); err != nil {
			r.find(Finding{Kind: "violation", What: "server did not shut down cleanly while a burst of connections was being accepted", Input: fmt.Sprintf("round %d", i), Actual: err.Error()})
		}
	}
	for i := 0; i < rounds; i++ {
		flavour := []string{"own", "shared-prepared", "shared-plain"}[i%3]
		r.eval(fmt.Sprintf("parallel-clients-round-%d-%s", i, flavour), true)
		crumb(fmt.Sprintf("C12 parallel clients round %d: 8 Clients, tls.Config %s", i, flavour))
		if err := stressClients(flavour, 8); err != nil {
			r.find(Finding{Kind: "violation", What: "independent Clients used from parallel goroutines did not each get their own answers", Input: fmt.Sprintf("round %d: 8 Clients in parallel (Connect, DiscoverVersions, Send, Close, twice), tls.Config: %s", i, flavour), Actual: err.Error()})
		}
		r.Stats["parallel-client-rounds:"+flavour]++
	}
	stressCodec(seed, 16, codecN)
	r.eval("codec-parallel", true)
	if diff := interleavedEncoders(seed, 8, codecN); diff != "" {
		r.find(Finding{Kind: "violation", What: "an Encoder's output was changed by other, independent Encoders running at the same time", Input: "8 goroutines, own Encoder / value / Writer each, interleaved at every Write", Actual: diff[:min(len(diff), 3000)]})
	}
	r.eval("codec-interleaved", true)
	sub := newResult("C11", "quick", seed)
	runC11(sub, d, "quick", seed, "")
	r.Evaluations += sub.Evaluations
	r.eval("c11-schedules", true)
	sub2 := newResult("C07", "quick", seed)
	sessionCorrespondence(sub2, d, seed, 30, 6, scriptOpts{maxArr: 6, maxItems: 4}, 100*time.Millisecond)
	r.Evaluations += sub2.Evaluations
	r.eval("c07-sessions", true)
	r.sample(map[string]interface{}{"workload": "stressServer", "connections": nConn, "requests_per_connection": nReq, "rounds": rounds, "requests_served": total})
	if !raceEnabled {
		r.Notes = append(r.Notes, "binary built WITHOUT -race: detector reports cannot appear in this run")
	}
	// collect detector reports
	if lp := os.Getenv("KV_RACE_LOG"); lp != "" {
		path := fmt.Sprintf("%s.%d", lp, os.Getpid())
		if b, err := os.ReadFile(path); err == nil {
			for _, rep := range strings.Split(string(b), "==================") {
				rep = strings.TrimSpace(rep)
				if !strings.Contains(rep, "DATA RACE") {
					continue
				}
				kind := "disagreement"
				what := "data race inside the harness itself"
				if strings.Contains(rep, "/repo/") || strings.Contains(rep, "go-kmip") {
					kind, what = "violation", "data race inside the library"
				}
				if len(rep) > 6000 {
					rep = rep[:6000]
				}
				r.find(Finding{Kind: kind, What: what, Input: "race detector report", Actual: rep})
			}
			os.Remove(path)
		}
	}
}
