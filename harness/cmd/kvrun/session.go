package main

import (
	"bytes"
	"context"
	"encoding/binary"
	"encoding/hex"
	"errors"
	"fmt"
	"io"
	"kvharness/internal/mut"
	"math/rand"
	"net"
	"strconv"
	"strings"
	"sync"
	"time"

	kmip "github.com/smira/go-kmip"

	"kvharness/internal/rec"
)

// ---- session scripts (mirror of lean/KmipModel/Session.lean; line format in lean/Driver/SessionIO.lean) ----

type sBeh struct {
	kind    byte // s n e r p v (v: a first result together with an error; reason 0 = plain error; enc = that result is encodable)
	payload int
	enc     bool
	msg     int
	reason  int
}

func (b sBeh) String() string {
	switch b.kind {
	case 's':
		e := 0
		if b.enc {
			e = 1
		}
		return fmt.Sprintf("s%d/%d", b.payload, e)
	case 'n':
		return "n"
	case 'e':
		return fmt.Sprintf("e%d", b.msg)
	case 'r':
		return fmt.Sprintf("r%d/%d", b.msg, b.reason)
	case 'v':
		rs, e := "-", 0
		if b.reason != 0 {
			rs = fmt.Sprint(b.reason)
		}
		if b.enc {
			e = 1
		}
		return fmt.Sprintf("v%d/%s/%d", b.msg, rs, e)
	default:
		return fmt.Sprintf("p%d", b.msg)
	}
}

type sItem struct {
	op      uint32
	uid     []byte
	payload int
	beh     sBeh
}

type sReq struct {
	maj, min int32
	corr     string
	bc       int32
	async    bool
	cred     int
	auth     string // ok:<v> | fail
	writeOk  bool
	items    []sItem
	// harness detail (not part of the model line): a rejected credential built so that Username+Password is the same
	// string as that of the earlier, accepted request `collideK-1` of the same connection (0 = ordinary credential)
	collideK   int
	collideRes string
	sid        int // set by the driver before encoding (keys the look-alike table)
}

// credTable: (username, password) -> "<request index>:<result>" for credentials that do not carry it in the user name
var credTable sync.Map

type sArr struct {
	kind byte // R E X
	req  *sReq
	how  string // for E: garbage | wrongtype | truncated-close | stall
}

type sCfg struct {
	rt, wt bool
	sa     string // none | fail | ok:<v>
	ra     bool
	reg    []uint32
	sid    int
}

func b01(b bool) string {
	if b {
		return "1"
	}
	return "0"
}

func (c sCfg) line() string {
	regs := "-"
	if len(c.reg) > 0 {
		var s []string
		for _, r := range c.reg {
			s = append(s, fmt.Sprint(r))
		}
		regs = strings.Join(s, ",")
	}
	return fmt.Sprintf("rt=%s wt=%s tls=0 hs=1 sa=%s ra=%s sid=%d reg=%s", b01(c.rt), b01(c.wt), c.sa, b01(c.ra), c.sid, regs)
}

func (a sArr) line() string {
	switch a.kind {
	case 'E':
		return "E"
	case 'X':
		return "X"
	}
	r := a.req
	var its []string
	for _, it := range r.items {
		its = append(its, fmt.Sprintf("%d:%s:%d:%s", it.op, hx(it.uid), it.payload, it.beh))
	}
	items := "-"
	if len(its) > 0 {
		items = strings.Join(its, ",")
	}
	return fmt.Sprintf("R v=%d.%d corr=%s bc=%d async=%s cred=%d auth=%s clock=0 w=%s items=%s",
		uint32(r.maj), uint32(r.min), hx([]byte(r.corr)), uint32(r.bc), b01(r.async), r.cred, r.auth, b01(r.writeOk), items)
}

func scriptLine(c sCfg, arrs []sArr) string {
	parts := []string{"session " + c.line()}
	for _, a := range arrs {
		parts = append(parts, a.line())
	}
	return strings.Join(parts, " | ")
}

// operations used by session scripts: each has a request payload with a UniqueIdentifier (carrying the payload id)
var (
	opActivate = uint32(kmip.OPERATION_ACTIVATE)
	opDestroy  = uint32(kmip.OPERATION_DESTROY)
	opAttrList = uint32(kmip.OPERATION_GET_ATTRIBUTE_LIST)
	opGetAttrs = uint32(kmip.OPERATION_GET_ATTRIBUTES) // dispatchable, never registered in scripts that want "no handler"
	scriptOps  = []uint32{opActivate, opDestroy, opAttrList, opGetAttrs}
)

func reqPayload(op uint32, id int) interface{} {
	s := fmt.Sprintf("p%d", id)
	switch op {
	case opActivate:
		return kmip.ActivateRequest{UniqueIdentifier: s}
	case opDestroy:
		return kmip.DestroyRequest{UniqueIdentifier: s}
	case opAttrList:
		return kmip.GetAttributeListRequest{UniqueIdentifier: s}
	default:
		return kmip.GetAttributesRequest{UniqueIdentifier: s}
	}
}

func reqPayloadID(p interface{}) int {
	s := ""
	switch v := p.(type) {
	case kmip.ActivateRequest:
		s = v.UniqueIdentifier
	case kmip.DestroyRequest:
		s = v.UniqueIdentifier
	case kmip.GetAttributeListRequest:
		s = v.UniqueIdentifier
	case kmip.GetAttributesRequest:
		s = v.UniqueIdentifier
	}
	n, err := strconv.Atoi(strings.TrimPrefix(s, "p"))
	if err != nil {
		return -1
	}
	return n
}

func respPayload(op uint32, id int) interface{} {
	s := fmt.Sprintf("r%d", id)
	switch op {
	case opActivate:
		return kmip.ActivateResponse{UniqueIdentifier: s}
	case opDestroy:
		return &kmip.DestroyResponse{UniqueIdentifier: s} // pointer payloads are fine too
	case opAttrList:
		return kmip.GetAttributeListResponse{UniqueIdentifier: s}
	default:
		return kmip.GetAttributesResponse{UniqueIdentifier: s}
	}
}

func respPayloadID(p interface{}) string {
	s := ""
	switch v := p.(type) {
	case nil:
		return "-"
	case kmip.ActivateResponse:
		s = v.UniqueIdentifier
	case kmip.DestroyResponse:
		s = v.UniqueIdentifier
	case kmip.GetAttributeListResponse:
		s = v.UniqueIdentifier
	case kmip.GetAttributesResponse:
		s = v.UniqueIdentifier
	default:
		return fmt.Sprintf("?%T", p)
	}
	return strings.TrimPrefix(s, "r")
}

type reasonErr struct {
	msg    string
	reason kmip.Enum
}

func (e reasonErr) Error() string           { return e.msg }
func (e reasonErr) ResultReason() kmip.Enum { return e.reason }

// error values with a pkg/errors-style cause chain: the OUTCOME of the item is what the handler returned (its own
// message, its own ResultReason if it has one), whatever its causes say
type causedErr struct {
	msg   string
	cause error
}

func (e causedErr) Error() string { return e.msg }
func (e causedErr) Cause() error  { return e.cause }

type causedReasonErr struct {
	reasonErr
	cause error
}

func (e causedReasonErr) Cause() error { return e.cause }

var unencodables = []func() interface{}{
	func() interface{} { return 42 },
	func() interface{} { return map[string]int{"a": 1} },
	func() interface{} { return (*kmip.ActivateResponse)(nil) },
	func() interface{} { return TBadTag{A: 1} },
	func() interface{} { p := &kmip.ActivateResponse{}; return &p },
	func() interface{} { return []int{1} },
	func() interface{} { return TNestedBad{A: 1} },
}

// ---- running scripts against the real Server --------------------------------------------------------------

type sessionRun struct {
	cfg    sCfg
	arrs   []sArr
	conn   *rec.Conn
	client *rec.MemConn
	trace  []string
	// serverClosedFirst: the server closed the connection while the peer was still connected (within the 8 s the driver waits)
	serverClosedFirst bool
	peerClosed        bool // the driver closed its end before waiting (clean close / truncation+close)
}

type behKey struct{ conn, payload int }

// runSessions serves all scripts concurrently on one real Server (common rt/wt/ra/reg; per-connection session auth and
// behaviours) and returns the normalised real trace of each session.
func runSessions(runs []*sessionRun, pipelined bool, T time.Duration, r *rand.Rand) error {
	if len(runs) == 0 {
		return nil
	}
	common := runs[0].cfg
	behs := map[behKey]sBeh{}
	ops := map[behKey]uint32{}
	var bmu sync.Mutex
	connByID := map[int]*sessionRun{}
	for i, run := range runs {
		run.cfg.sid = i + 1
		server, client := rec.Pipe()
		run.conn = rec.NewConn(server, i+1)
		run.client = client
		connByID[i+1] = run
		for k, a := range run.arrs {
			if a.kind != 'R' {
				continue
			}
			for _, it := range a.req.items {
				behs[behKey{i + 1, it.payload}] = it.beh
				ops[behKey{i + 1, it.payload}] = it.op
			}
			if !a.req.writeOk {
				// the k-th response is the (number of responses so far + 1)-th write run; set when known below
				_ = k
			}
		}
	}
	s := &kmip.Server{}
	if common.rt {
		s.ReadTimeout = T
	}
	if common.wt {
		s.WriteTimeout = T
	}
	anySA := false
	for _, run := range runs {
		if run.cfg.sa != "none" {
			anySA = true
		}
	}
	if anySA {
		s.SessionAuthHandler = func(c net.Conn) (interface{}, error) {
			rc := c.(*rec.Conn)
			run := connByID[rc.ID]
			if run.cfg.sa == "fail" {
				rc.L.Add("sessionAuth:fail")
				return nil, errors.New("session auth rejected")
			}
			rc.L.Add("sessionAuth:ok")
			v, _ := strconv.Atoi(strings.TrimPrefix(run.cfg.sa, "ok:"))
			return v, nil
		}
	}
	if common.ra {
		s.RequestAuthHandler = func(sc *kmip.SessionContext, a *kmip.Authentication) (interface{}, error) {
			sid, _ := strconv.ParseInt(sc.SessionID, 16, 64)
			run := connByID[int(sid)]
			cred, _ := a.CredentialValue.(kmip.CredentialUsernamePassword)
			// Username carries "<request index>:<result>", unless the pair is a registered look-alike
			name := cred.Username
			if v, ok := credTable.Load(fmt.Sprintf("%d\x00%s\x00%s", sid, cred.Username, cred.Password)); ok {
				name = v.(string)
			}
			parts := strings.SplitN(name, ":", 2)
			k := parts[0]
			if len(parts) == 2 && strings.HasPrefix(parts[1], "ok") {
				run.conn.L.Add("requestAuth:%s:ok", k)
				v, _ := strconv.Atoi(strings.TrimPrefix(parts[1], "ok"))
				return v, nil
			}
			run.conn.L.Add("requestAuth:%s:fail", k)
			// a rejection is a rejection whatever the error value looks like: plain, carrying a (nil) cause, or a protocol error
			switch kk, _ := strconv.Atoi(k); kk % 4 {
			case 1:
				return nil, causedErr{"request auth rejected (wrong password)", nil}
			case 2:
				return nil, reasonErr{"request auth rejected", kmip.RESULT_REASON_AUTHENTICATION_NOT_SUCCESSFUL}
			case 3:
				return "a value returned together with the error must not be used", causedErr{"request auth rejected", errors.New("backend")}
			}
			return nil, errors.New("request auth rejected")
		}
	}
	mk := func(op uint32) kmip.Handler {
		return func(ctx *kmip.RequestContext, item *kmip.RequestBatchItem) (interface{}, error) {
			sid, _ := strconv.ParseInt(ctx.SessionID, 16, 64)
			run := connByID[int(sid)]
			id := reqPayloadID(item.RequestPayload)
			sa, ra := "-", "-"
			if ctx.SessionAuth != nil {
				sa = fmt.Sprint(ctx.SessionAuth)
			}
			if ctx.RequestAuth != nil {
				ra = fmt.Sprint(ctx.RequestAuth)
			}
			run.conn.L.Add("call:%d:%d:%d:%d:sid=%d:sa=%s:ra=%s", id/100, id%100, uint32(item.Operation), id, sid, sa, ra)
			bmu.Lock()
			b := behs[behKey{int(sid), id}]
			bmu.Unlock()
			switch b.kind {
			case 's':
				if !b.enc {
					return unencodables[id%len(unencodables)](), nil
				}
				return respPayload(op, b.payload), nil
			case 'n':
				return nil, nil
			case 'e':
				switch id % 3 {
				case 1: // no result reason of its own; its cause has one (must not be reported)
					return nil, causedErr{fmt.Sprintf("m%d", b.msg), reasonErr{"inner", kmip.RESULT_REASON_PERMISSION_DENIED}}
				case 2:
					return nil, causedErr{fmt.Sprintf("m%d", b.msg), fmt.Errorf("inner")}
				}
				return nil, fmt.Errorf("m%d", b.msg)
			case 'r':
				own := reasonErr{fmt.Sprintf("m%d", b.msg), kmip.Enum(b.reason)}
				switch id % 3 {
				case 1: // its cause carries a different reason
					return nil, causedReasonErr{own, reasonErr{"inner", kmip.RESULT_REASON_ITEM_NOT_FOUND}}
				case 2: // its cause is a plain error
					return nil, causedReasonErr{own, fmt.Errorf("inner")}
				}
				return nil, own
			case 'v':
				// a first result beside the error: half-filled response, pointer, typed nil or something Encode rejects
				var val interface{} = respPayload(op, b.payload)
				if !b.enc {
					val = unencodables[id%len(unencodables)]()
				}
				if b.reason != 0 {
					return val, reasonErr{fmt.Sprintf("m%d", b.msg), kmip.Enum(b.reason)}
				}
				return val, fmt.Errorf("m%d", b.msg)
			default:
				if id%2 == 0 {
					panic(fmt.Sprintf("m%d", b.msg))
				}
				panic(fmt.Errorf("m%d", b.msg))
			}
		}
	}
	for _, op := range common.reg {
		s.Handle(kmip.Enum(op), mk(op))
	}
	l := rec.NewListener()
	for _, run := range runs {
		l.Push(rec.AcceptStep{Conn: run.conn})
	}
	init := make(chan struct{})
	serveErr := make(chan error, 1)
	go func() { serveErr <- s.Serve(l, init) }()
	<-init

	var wg sync.WaitGroup
	for _, run := range runs {
		wg.Add(1)
		go func(run *sessionRun) {
			defer wg.Done()
			driveClient(run, pipelined, T, r)
		}(run)
	}
	wg.Wait()
	// wait for every session to end
	deadline := time.After(20 * time.Second)
	for _, run := range runs {
		select {
		case <-run.conn.Closed():
		case <-deadline:
			return fmt.Errorf("session %d did not end (events: %v)", run.cfg.sid, run.conn.L.Events())
		}
	}
	ctx, cancel := context.WithTimeout(context.Background(), 20*time.Second)
	defer cancel()
	if err := s.Shutdown(ctx); err != nil {
		return fmt.Errorf("shutdown: %v", err)
	}
	if err := <-serveErr; err != nil {
		return fmt.Errorf("serve: %v", err)
	}
	for _, run := range runs {
		run.trace = normaliseTrace(run.conn, pipelined)
	}
	return nil
}

func encodeReq(k int, a *sReq) []byte {
	req := kmip.Request{
		Header: kmip.RequestHeader{
			Version:                kmip.ProtocolVersion{Major: a.maj, Minor: a.min},
			ClientCorrelationValue: a.corr,
			AsynchronousIndicator:  a.async,
			BatchCount:             a.bc,
		},
	}
	// header options the server does not act upon (it handles every item, in order, whatever they say): present in some
	// requests so that an implementation starting to honour them in a way that breaks a property is noticed
	h := k*7 + len(a.items)*3 + len(a.corr)
	req.Header.BatchErrorContinuationOption = kmip.Enum(h % 4) // absent, Continue, Stop, Undo
	req.Header.BatchOrderOption = h%3 == 1
	if h%5 == 2 {
		req.Header.MaxResponseSize = int32(16 + h%1000)
	}
	req.Header.AttestationCapableIndicator = h%7 == 3
	if h%4 == 1 {
		req.Header.ServerCorrelationValue = fmt.Sprintf("srv-%d-%d", k, h)
		if h%8 == 1 {
			// ... or something that looks exactly like a session ID - of this or of another connection: it is the CLIENT's
			// say-so and identifies nothing
			req.Header.ServerCorrelationValue = fmt.Sprintf("%08x", 1+h%3)
		}
	}
	if h%6 == 2 {
		req.Header.AttestationType = []kmip.Enum{1, 2}
	}
	if h%5 == 3 {
		req.Header.TimeStamp = time.Unix(int64(1000000000+h), 0) // the CLIENT's clock: the response bears the server's
	}
	if a.cred != 0 {
		res := "fail"
		if strings.HasPrefix(a.auth, "ok:") {
			res = "ok" + strings.TrimPrefix(a.auth, "ok:")
		}
		user, pass := fmt.Sprintf("%d:%s", k, res), "x"
		if a.collideK != 0 {
			accepted := fmt.Sprintf("%d:%s", a.collideK-1, a.collideRes)
			cut := 1 + k%(len(accepted)-1) // a different split of the same string for every request of the connection
			user, pass = accepted[:cut], accepted[cut:]+"x"
			credTable.Store(fmt.Sprintf("%d\x00%s\x00%s", a.sid, user, pass), fmt.Sprintf("%d:%s", k, res))
		}
		req.Header.Authentication = kmip.Authentication{
			CredentialType:  kmip.CREDENTIAL_TYPE_USERNAME_AND_PASSWORD,
			CredentialValue: kmip.CredentialUsernamePassword{Username: user, Password: pass},
		}
	}
	for i, it := range a.items {
		bi := kmip.RequestBatchItem{Operation: kmip.Enum(it.op), UniqueID: it.uid, RequestPayload: reqPayload(it.op, it.payload)}
		// a Message Extension on some items - critical or not, it is the handler's business: the item is dispatched like any other
		switch (h + i*5) % 7 {
		case 2:
			bi.MessageExtension = kmip.MessageExtension{VendorIdentification: "acme", CriticalityIndicator: true}
		case 5:
			bi.MessageExtension = kmip.MessageExtension{VendorIdentification: "acme-trace"}
		}
		req.BatchItems = append(req.BatchItems, bi)
	}
	var buf bytes.Buffer
	if err := kmip.NewEncoder(&buf).Encode(&req); err != nil {
		panic("harness: cannot encode scripted request: " + err.Error())
	}
	return buf.Bytes()
}

func driveClient(run *sessionRun, pipelined bool, T time.Duration, r *rand.Rand) {
	c := run.client
	dec := kmip.NewDecoder(c)
	nResp := 0
	// arrange write failures: the n-th response write run fails
	for _, a := range run.arrs {
		if a.kind == 'R' {
			if !a.req.writeOk {
				run.conn.FailWriteRun = nResp + 1
				break
			}
			nResp++
		}
	}
	readOne := func() bool {
		_ = c.SetReadDeadline(time.Now().Add(10 * time.Second))
		var resp kmip.Response
		err := dec.Decode(&resp)
		return err == nil
	}
	alive := true
	sent := 0
	closeAtEnd := false
	for k, a := range run.arrs {
		if !alive && !pipelined {
			break
		}
		switch a.kind {
		case 'R':
			a.req.sid = run.cfg.sid
			if _, err := c.Write(encodeReq(k, a.req)); err != nil {
				alive = false
				continue
			}
			sent++
			if !pipelined {
				alive = readOne()
			}
		case 'E':
			switch a.how {
			case "wrongtype":
				var b bytes.Buffer
				_ = kmip.NewEncoder(&b).Encode(&kmip.Response{Header: kmip.ResponseHeader{BatchCount: 1, TimeStamp: time.Unix(1, 0)}, BatchItems: []kmip.ResponseBatchItem{{Operation: 1}}})
				_, _ = c.Write(b.Bytes())
			case "truncated-close":
				full := encodeReq(k, &sReq{maj: 1, min: 4, bc: 1, writeOk: true, items: []sItem{{op: opActivate, payload: 0}}})
				_, _ = c.Write(full[:len(full)-5])
				closeAtEnd = true
			case "extra-item", "bad-type", "bad-tag", "mutated", "hostile-length", "cred-type", "cut-tail", "any-tag", "bad-bool", "short-attr":
				_, _ = c.Write(malformedRequest(k, a.how))
				if a.how == "hostile-length" {
					closeAtEnd = true // the announced bytes never come: the peer leaves (otherwise a server without ReadTimeout rightly waits)
				}
			case "stall":
				full := encodeReq(k, &sReq{maj: 1, min: 4, bc: 1, writeOk: true, items: []sItem{{op: opActivate, payload: 0}}})
				// fall silent inside the message, inside its first item header, or AT the message boundary (nothing sent at all)
				if n := []int{12, 0, 7, 12, 1}[(k+run.cfg.sid)%5]; n > 0 {
					_, _ = c.Write(full[:n])
				}
				// say nothing more: the server's read deadline must fire
			default:
				_, _ = c.Write([]byte{0x42, 0x00, 0x78, 0x01, 0x00, 0x00, 0x00, 0x10, 0xde, 0xad, 0xbe, 0xef, 0, 0, 0, 0, 1, 2, 3, 4, 5, 6, 7, 8})
			}
			alive = false
		case 'X':
			closeAtEnd = true
			alive = false
		}
		if !alive {
			break
		}
	}
	if pipelined {
		for i := 0; i < sent; i++ {
			if !readOne() {
				break
			}
		}
	}
	if closeAtEnd {
		c.Close()
	}
	// let the server finish (it may have to time out by itself), then drop our end
	run.peerClosed = closeAtEnd
	select {
	case <-run.conn.Closed():
		run.serverClosedFirst = true
	case <-time.After(8 * time.Second):
	}
	c.Close()
}

func msgID(m string) string {
	switch {
	case m == "":
		return "-"
	case m == "operation not supported":
		return "notsupported"
	case strings.HasPrefix(m, "panic: "):
		return "panic:" + strings.TrimPrefix(m, "panic: ")
	}
	return m
}

// splitMessages cuts a byte run into TTLV messages by their declared lengths
func splitMessages(b []byte) [][]byte {
	var out [][]byte
	for len(b) >= 8 {
		n := 8 + declaredEnd(b) - 8
		if n > len(b) || n < 8 {
			break
		}
		out = append(out, b[:n])
		b = b[n:]
	}
	if len(b) > 0 {
		out = append(out, b)
	}
	return out
}

func renderResponse(k int, raw []byte, before, after time.Time) string {
	var resp kmip.Response
	if err := kmip.NewDecoder(bytes.NewReader(raw)).Decode(&resp); err != nil {
		return fmt.Sprintf("respond:%d:UNDECODABLE(%v):%s", k, err, hex.EncodeToString(raw))
	}
	var its []string
	for _, it := range resp.BatchItems {
		its = append(its, fmt.Sprintf("%d,%s,%d,%d,%s,%s", uint32(it.Operation), hx(it.UniqueID), uint32(it.ResultStatus), uint32(it.ResultReason), msgID(it.ResultMessage), respPayloadID(it.ResponsePayload)))
	}
	clock := ""
	ts := resp.Header.TimeStamp
	if ts.Before(before.Add(-2*time.Second)) || ts.After(after.Add(2*time.Second)) {
		clock = fmt.Sprintf(":BADCLOCK(%v)", ts)
	}
	return fmt.Sprintf("respond:%d:v=%d.%d:corr=%s:bc=%d:items=%s%s", k, uint32(resp.Header.Version.Major), uint32(resp.Header.Version.Minor),
		hx([]byte(resp.Header.ClientCorrelationValue)), uint32(resp.Header.BatchCount), strings.Join(its, "/"), clock)
}

var traceStart time.Time

// normaliseTrace maps the recorded events onto the model's vocabulary
func normaliseTrace(c *rec.Conn, pipelined bool) []string {
	evs := c.L.Events()
	runs := c.L.WriteRuns()
	var out []string
	wi, k := 0, 0
	now := time.Now()
	for _, e := range evs {
		switch {
		case e == "read":
			if !pipelined {
				out = append(out, "decode")
			}
		case e == "write":
			for _, m := range splitMessages(runs[wi]) {
				out = append(out, renderResponse(k, m, traceStart, now))
				k++
			}
			wi++
		case e == "writeFail":
		default:
			out = append(out, e)
		}
	}
	return out
}

func dropDecode(s string) string {
	var out []string
	for _, e := range strings.Split(s, ";") {
		if e != "decode" {
			out = append(out, e)
		}
	}
	return strings.Join(out, ";")
}

var _ = io.EOF

// ---- script generator ------------------------------------------------------------------------------------

type scriptOpts struct {
	maxArr, maxItems int
	allowStall       bool
	credHeavy        bool // C09: most requests carry credentials; every rejected credential is a look-alike of the last accepted one
}

func genCommonCfg(r *rand.Rand) sCfg {
	c := sCfg{rt: r.Intn(2) == 0, wt: r.Intn(2) == 0, ra: r.Intn(3) != 0, sa: "none"}
	for _, op := range []uint32{opActivate, opDestroy, opAttrList} {
		if r.Intn(5) != 0 {
			c.reg = append(c.reg, op)
		}
	}
	return c
}

func genBeh(r *rand.Rand, payload int) sBeh {
	x := r.Intn(100)
	switch {
	case x < 45:
		return sBeh{kind: 's', payload: payload, enc: true}
	case x < 53:
		return sBeh{kind: 's', payload: payload, enc: false}
	case x < 61:
		return sBeh{kind: 'n'}
	case x < 75:
		return sBeh{kind: 'e', msg: r.Intn(1000)}
	case x < 85:
		return sBeh{kind: 'r', msg: r.Intn(1000), reason: []int{1, 2, 4, 0xC, 0x100, 0x11}[r.Intn(6)]}
	case x < 91:
		return sBeh{kind: 'v', payload: payload, msg: r.Intn(1000), reason: []int{0, 0, 1, 2, 0x100}[r.Intn(5)], enc: r.Intn(2) == 0}
	default:
		return sBeh{kind: 'p', msg: r.Intn(1000)}
	}
}

func randBytes(r *rand.Rand, n int) []byte {
	b := make([]byte, n)
	for i := range b {
		b[i] = byte(r.Intn(256))
	}
	return b
}

func genScript(r *rand.Rand, common sCfg, saConfigured bool, o scriptOpts) (sCfg, []sArr) {
	cfg := common
	if saConfigured {
		if r.Intn(6) == 0 {
			cfg.sa = "fail"
		} else {
			cfg.sa = fmt.Sprintf("ok:%d", 1000+r.Intn(9000))
		}
	}
	n := 1 + r.Intn(o.maxArr)
	var arrs []sArr
	for k := 0; k < n; k++ {
		x := r.Intn(100)
		last := k == n-1
		switch {
		case (x < 78 && !last) || (last && x < 0):
			ni := 1 + r.Intn(o.maxItems)
			q := &sReq{maj: 1, min: 4, bc: int32(ni), writeOk: r.Intn(25) != 0, auth: "fail"}
			if r.Intn(6) == 0 {
				q.maj, q.min = int32(r.Uint32()), int32(r.Uint32())
			}
			if r.Intn(2) == 0 {
				q.corr = string('a'+rune(r.Intn(26))) + strconv.Itoa(r.Intn(1000))
			}
			switch r.Intn(24) {
			case 0, 1:
				q.bc += int32(1 - 2*r.Intn(2))
			case 2:
				// a count no batch can have: negative, or far beyond the items present
				q.bc = []int32{-1, -2147483648, 1 << 20}[r.Intn(3)]
			}
			q.async = r.Intn(20) == 0
			if r.Intn(3) == 0 || (o.credHeavy && r.Intn(2) == 0) {
				q.cred = 1
				if r.Intn(4) != 0 {
					q.auth = fmt.Sprintf("ok:%d", 10000+r.Intn(90000))
				}
			}
			for i := 0; i < ni; i++ {
				it := sItem{op: scriptOps[r.Intn(len(scriptOps))], payload: k*100 + i}
				if r.Intn(2) == 0 {
					it.uid = randBytes(r, 1+r.Intn(9))
				}
				it.beh = genBeh(r, it.payload)
				q.items = append(q.items, it)
			}
			if q.cred != 0 && !strings.HasPrefix(q.auth, "ok:") && (o.credHeavy || r.Intn(2) == 0) {
				for i := len(arrs) - 1; i >= 0; i-- {
					if arrs[i].kind == 'R' && arrs[i].req.cred != 0 && strings.HasPrefix(arrs[i].req.auth, "ok:") {
						q.collideK, q.collideRes = i+1, "ok"+strings.TrimPrefix(arrs[i].req.auth, "ok:")
						break
					}
				}
			}
			arrs = append(arrs, sArr{kind: 'R', req: q})
		case x < 88 || (last && x < 50):
			how := []string{"garbage", "wrongtype", "truncated-close", "extra-item", "bad-type", "bad-tag", "mutated", "hostile-length", "cred-type", "cut-tail", "cred-type", "cut-tail", "any-tag", "any-tag", "bad-bool", "bad-bool", "short-attr", "short-attr"}[r.Intn(18)]
			if o.allowStall && cfg.rt && r.Intn(3) == 0 {
				how = "stall"
			}
			arrs = append(arrs, sArr{kind: 'E', how: how})
			return cfg, arrs
		default:
			arrs = append(arrs, sArr{kind: 'X'})
			return cfg, arrs
		}
	}
	arrs = append(arrs, sArr{kind: 'X'})
	return cfg, arrs
}

// malformedRequest: a properly framed request that the decoder must reject (the model's E arrival):
//
//	extra-item: an item no field claims, after the last batch item, inside the (re-measured) Request Message
//	bad-type:   the request header announced with a type other than structure
//	bad-tag:    the required Batch Count replaced by another tag
//	mutated:    one of several deeper structural defects (item inside the header, inflated inner length, bad boolean)
func malformedRequest(k int, how string) []byte {
	full := encodeReq(k, &sReq{maj: 1, min: 4, bc: 1, writeOk: true, items: []sItem{{op: opActivate, payload: 0}}})
	nodes := mut.All(mut.Parse(full))
	setLen := func(b []byte, off int, l uint32) { binary.BigEndian.PutUint32(b[off+4:], l) }
	extra := []byte{0x42, 0x00, 0x6a, 0x02, 0, 0, 0, 4, 0, 0, 0, 7, 0, 0, 0, 0}
	switch how {
	case "short-attr":
		// a Locate request with an attribute whose NAME is empty, one byte long, or absent altogether, and which does carry an
		// Attribute Value: no attribute the library knows, so the value cannot be typed - an undecodable message like any other
		var rb bytes.Buffer
		rq := kmip.Request{Header: kmip.RequestHeader{Version: kmip.ProtocolVersion{Major: 1, Minor: 4}, BatchCount: 1},
			BatchItems: []kmip.RequestBatchItem{{Operation: kmip.OPERATION_LOCATE, RequestPayload: kmip.LocateRequest{Attributes: kmip.Attributes{{Name: kmip.ATTRIBUTE_NAME_CRYPTOGRAPHIC_LENGTH, Value: int32(128)}}}}}}
		if err := kmip.NewEncoder(&rb).Encode(&rq); err != nil {
			panic("harness: cannot encode short-attr base request: " + err.Error())
		}
		b := rb.Bytes()
		for _, n := range mut.All(mut.Parse(b)) {
			if n.Tag != 0x42000a {
				continue
			}
			var item []byte
			switch k % 4 {
			case 0:
				item = []byte{0x42, 0x00, 0x0a, 7, 0, 0, 0, 1, 'z', 0, 0, 0, 0, 0, 0, 0}
			case 1:
				item = []byte{0x42, 0x00, 0x0a, 7, 0, 0, 0, 0}
			case 2:
				item = nil // no Attribute Name at all
			default:
				item = []byte{0x42, 0x00, 0x0a, 7, 0, 0, 0, 1, 'x', 0, 0, 0, 0, 0, 0, 0}
			}
			m := append(append(append([]byte(nil), b[:n.Off]...), item...), b[n.End:]...)
			delta := len(item) - (n.End - n.Off)
			for p := n.Parent; p != nil; p = p.Parent {
				binary.BigEndian.PutUint32(m[p.Off+4:], uint32(int(binary.BigEndian.Uint32(m[p.Off+4:]))+delta))
			}
			return m
		}
		return b[:len(b)-8]
	case "bad-bool":
		// an otherwise valid request with a Boolean (Batch Order Option / Asynchronous Indicator) whose eight value bytes are
		// neither 0 nor 1 as a whole, although their low half is: the Integer layout of 1, a set top bit, garbage in front of 01
		var rb bytes.Buffer
		rq := kmip.Request{Header: kmip.RequestHeader{Version: kmip.ProtocolVersion{Major: 1, Minor: 4}, BatchOrderOption: k%2 == 0, AsynchronousIndicator: k%2 == 1, BatchCount: 1},
			BatchItems: []kmip.RequestBatchItem{{Operation: kmip.Enum(opActivate), RequestPayload: reqPayload(opActivate, 0)}}}
		if err := kmip.NewEncoder(&rb).Encode(&rq); err != nil {
			panic("harness: cannot encode bad-bool base request: " + err.Error())
		}
		b := rb.Bytes()
		for _, n := range mut.All(mut.Parse(b)) {
			if n.Typ == 6 && n.Len == 8 {
				copy(b[n.Off+8:], [][]byte{{0, 0, 0, 1, 0, 0, 0, 0}, {0x80, 0, 0, 0, 0, 0, 0, 1}, {0, 0, 0, 1, 0, 0, 0, 1}, {1, 2, 3, 4, 0, 0, 0, 0}}[(k/2)%4])
			}
		}
		return b
	case "any-tag":
		// an otherwise valid request in which one item's tag is ff ff ff - the library's INTERNAL marker for "any tag" in a
		// schema (kmip:"-"), which no peer may use to pass for the Request Message, its header, an item, the operation ...
		b := append([]byte(nil), full...)
		cands := []int{0}
		for _, n := range nodes {
			cands = append(cands, n.Off)
		}
		off := cands[k%len(cands)]
		if k%3 == 0 {
			off = 0
		}
		b[off], b[off+1], b[off+2] = 0xff, 0xff, 0xff
		return b
	case "hostile-length":
		// a string item the decoder reaches (Client Correlation Value) declaring a length at or near 2^32, nothing behind it
		withCorr := encodeReq(k, &sReq{maj: 1, min: 4, bc: 1, corr: "abc", writeOk: true, items: []sItem{{op: opActivate, payload: 0}}})
		for _, n := range mut.All(mut.Parse(withCorr)) {
			if n.Tag == 0x420105 {
				b := append([]byte(nil), withCorr[:n.Off+8]...)
				setLen(b, n.Off, []uint32{1<<32 - 1, 1<<32 - 4, 1<<32 - 7, 1<<32 - 8, 1<<31 - 4}[k%5])
				return b
			}
		}
		return full[:9]
	case "cred-type":
		// a request with username/password credentials whose Credential Type is another number (0 = the value the header holds
		// when there is NO Authentication at all; 2..6 = types the library has no structure for; a huge one)
		withCred := encodeReq(k, &sReq{maj: 1, min: 4, bc: 1, cred: 1, auth: "ok:1", writeOk: true, items: []sItem{{op: opActivate, payload: 0}}})
		b := append([]byte(nil), withCred...)
		for _, n := range mut.All(mut.Parse(withCred)) {
			if n.Tag == 0x420024 {
				binary.BigEndian.PutUint32(b[n.Off+8:], []uint32{0, 2, 3, 0, 4, 5, 6, 0x7fffffff}[k%8])
			}
		}
		return b
	case "cut-tail":
		// a perfectly nested message in which one structure ends before its trailing required item(s): the batch item without
		// its payload, the message without batch items, the header without Batch Count, Authentication without its value
		src := full
		want := []uint32{0x42000f, 0x420078, 0x420077, 0x42000c}[k%4]
		if want == 0x42000c {
			src = encodeReq(k, &sReq{maj: 1, min: 4, bc: 1, cred: 1, auth: "ok:1", writeOk: true, items: []sItem{{op: opActivate, payload: 0}}})
		}
		for _, st := range mut.All(mut.Parse(src)) {
			if st.Tag != want || len(st.Kids) < 2 {
				continue
			}
			last := st.Kids[len(st.Kids)-1]
			from, to := last.Off, st.Off+8+int(st.Len)
			b := append(append([]byte(nil), src[:from]...), src[to:]...)
			for p := st; p != nil; p = p.Parent {
				setLen(b, p.Off, binary.BigEndian.Uint32(b[p.Off+4:])-uint32(to-from))
			}
			return b
		}
		return full[:len(full)-16]
	case "extra-item":
		b := append(append([]byte(nil), full...), extra...)
		setLen(b, 0, uint32(len(b)-8))
		return b
	case "bad-type":
		b := append([]byte(nil), full...)
		b[8+3] = 0x02
		return b
	case "bad-tag":
		b := append([]byte(nil), full...)
		for _, n := range nodes {
			if n.Tag == 0x42000d {
				b[n.Off+2] = 0x0e
			}
		}
		return b
	}
	switch k % 3 {
	case 0: // an unclaimed item at the end of the header, all enclosing lengths repaired
		var hdr *mut.Node
		for _, n := range nodes {
			if n.Tag == 0x420077 {
				hdr = n
			}
		}
		b := append(append(append([]byte(nil), full[:hdr.End]...), extra...), full[hdr.End:]...)
		setLen(b, hdr.Off, hdr.Len+uint32(len(extra)))
		setLen(b, 0, uint32(len(b)-8))
		return b
	case 1: // the batch item claims 8 bytes more than the message holds
		b := append([]byte(nil), full...)
		for _, n := range nodes {
			if n.Tag == 0x42000f {
				setLen(b, n.Off, n.Len+8)
			}
		}
		return b
	default: // two items where the payload's only field is expected
		var pl *mut.Node
		for _, n := range nodes {
			if n.Tag == 0x420079 {
				pl = n
			}
		}
		b := append(append(append([]byte(nil), full[:pl.End]...), extra...), full[pl.End:]...)
		setLen(b, pl.Off, pl.Len+uint32(len(extra)))
		setLen(b, pl.Parent.Off, pl.Parent.Len+uint32(len(extra)))
		setLen(b, 0, uint32(len(b)-8))
		return b
	}
}
