package main

import (
	"bytes"
	"context"
	"crypto/tls"
	"fmt"
	"io"
	"net"
	"sync"
	"sync/atomic"
	"time"

	kmip "github.com/smira/go-kmip"

	"kvharness/internal/rec"
	"kvharness/internal/tlsm"
)

// c15Idle: "a peer that stalls before completing a request is disconnected" - at every place a peer can fall silent: before
// its first request, after k completed exchanges (at the message boundary, where the expiring read is the decoder's very first
// read of the next message), and after a few bytes of the next message (inside the 8-byte item header, inside the body). The
// peer stays connected and only listens; with ReadTimeout T the server must hang up by itself - observed as the peer's read
// ending - not earlier than T/2 after the peer's last byte and not later than a generous multiple of T. Plain and TLS.
func c15Idle(r *Result) {
	const T = 300 * time.Millisecond
	const limit = 10 * T
	ca := tlsm.NewCA("c15i-ca")
	serverCert := tlsm.Leaf(ca, tlsm.LeafOpts{Host: "kmip.test"})
	clientCert := tlsm.Leaf(ca, tlsm.LeafOpts{Host: "client.test", Client: true})
	var reqBytes bytes.Buffer
	mkReq := func() *kmip.Request {
		return &kmip.Request{Header: kmip.RequestHeader{Version: kmip.ProtocolVersion{Major: 1, Minor: 4}, BatchCount: 1},
			BatchItems: []kmip.RequestBatchItem{{Operation: kmip.OPERATION_DISCOVER_VERSIONS, RequestPayload: kmip.DiscoverVersionsRequest{}}}}
	}
	_ = kmip.NewEncoder(&reqBytes).Encode(mkReq())
	raw := reqBytes.Bytes()
	type outcome struct {
		key, obs string
		bad      bool
	}
	var mu sync.Mutex
	var outs []outcome
	var wg sync.WaitGroup
	for _, useTLS := range []bool{false, true} {
		for _, done := range []int{0, 1, 3} {
			for _, prefix := range []int{0, 1, 7, 8, 20} {
				useTLS, done, prefix := useTLS, done, prefix
				key := fmt.Sprintf("tls=%v: %d completed exchange(s), then %d byte(s) of the next request, then silence (ReadTimeout %v, WriteTimeout %v)", useTLS, done, prefix, T, T)
				r.eval(key, true)
				wg.Add(1)
				go func() {
					defer wg.Done()
					o := outcome{key: key}
					defer func() { mu.Lock(); outs = append(outs, o); mu.Unlock() }()
					s := &kmip.Server{ReadTimeout: T, WriteTimeout: T}
					sc, cc := rec.Pipe()
					var srvConn net.Conn = rec.NewConn(sc, 1)
					var peer net.Conn = cc
					if useTLS {
						cfg := &tls.Config{Certificates: []tls.Certificate{serverCert}, ClientCAs: ca.Pool}
						kmip.DefaultServerTLSConfig(cfg)
						s.TLSConfig = cfg
						srvConn = tls.Server(srvConn, cfg)
						peer = tls.Client(cc, &tls.Config{RootCAs: ca.Pool, ServerName: "kmip.test", Certificates: []tls.Certificate{clientCert}})
					}
					l := rec.NewListener()
					l.Push(rec.AcceptStep{Conn: srvConn})
					init := make(chan struct{})
					ret := make(chan error, 1)
					go func() { ret <- s.Serve(l, init) }()
					<-init
					defer func() {
						cc.Close()
						ctx, cancel := context.WithTimeout(context.Background(), 5*time.Second)
						_ = s.Shutdown(ctx)
						cancel()
						<-ret
					}()
					_ = cc.SetDeadline(time.Now().Add(limit + 5*time.Second))
					if tc, ok := peer.(*tls.Conn); ok {
						if err := tc.Handshake(); err != nil {
							o.obs, o.bad = "handshake of a valid client failed: "+err.Error(), true
							return
						}
					}
					enc, dec := kmip.NewEncoder(peer), kmip.NewDecoder(peer)
					for i := 0; i < done; i++ {
						var resp kmip.Response
						err := enc.Encode(mkReq())
						if err == nil {
							err = dec.Decode(&resp)
						}
						if err != nil {
							o.obs, o.bad = fmt.Sprintf("prompt exchange %d was not answered: %v", i+1, err), true
							return
						}
					}
					if prefix > 0 {
						if _, err := peer.Write(raw[:prefix]); err != nil {
							o.obs, o.bad = "could not send the partial request: "+err.Error(), true
							return
						}
					}
					start := time.Now()
					_ = cc.SetReadDeadline(start.Add(limit))
					n, err := io.Copy(io.Discard, peer)
					el := time.Since(start)
					if el >= limit-T/10 {
						o.obs, o.bad = fmt.Sprintf("still connected %v after falling silent (received %d bytes meanwhile; read ended with %v)", el.Round(10*time.Millisecond), n, err), true
						return
					}
					if el < T/2 {
						o.obs, o.bad = fmt.Sprintf("disconnected only %v after the last byte although ReadTimeout is %v", el.Round(time.Millisecond), T), true
						return
					}
					o.obs = fmt.Sprintf("disconnected after %v", el.Round(10*time.Millisecond))
				}()
			}
		}
	}
	wg.Wait()
	for _, o := range outs {
		r.Stats["idle-peer-scenarios"]++
		if o.bad {
			r.find(Finding{Kind: "violation", What: "a peer that fell silent before completing a request was not disconnected at the read deadline", Input: o.key, Expect: fmt.Sprintf("server closes the connection between %v and %v after the peer's last byte", T/2, limit), Actual: o.obs})
		} else if len(r.Samples) < 8 {
			r.sample(map[string]string{"scenario": o.key, "observed": o.obs})
		}
	}
}

// c15SlowHandshake: "arms a fresh read deadline before waiting for each request (and for the TLS handshake)": the handshake and
// the first request each get their own deadline. A TLS peer starts its handshake 0.6 T after connecting and sends its first
// request 0.6 T after the handshake (each wait shorter than T, the two together longer): the request must be answered - with and
// without a SessionAuthHandler, whose presence must not change how deadlines are armed.
func c15SlowHandshake(r *Result) {
	const T = 600 * time.Millisecond
	ca := tlsm.NewCA("c15s-ca")
	serverCert := tlsm.Leaf(ca, tlsm.LeafOpts{Host: "kmip.test"})
	clientCert := tlsm.Leaf(ca, tlsm.LeafOpts{Host: "client.test", Client: true})
	type outcome struct {
		key, obs string
	}
	var mu sync.Mutex
	var outs []outcome
	var wg sync.WaitGroup
	for _, withAuth := range []bool{false, true} {
		withAuth := withAuth
		key := fmt.Sprintf("TLS peer handshaking 0.6 T after connecting and sending its first request 0.6 T after the handshake (T = %v, SessionAuthHandler configured: %v)", T, withAuth)
		r.eval(key, true)
		wg.Add(1)
		go func() {
			defer wg.Done()
			cfg := &tls.Config{Certificates: []tls.Certificate{serverCert}, ClientCAs: ca.Pool}
			kmip.DefaultServerTLSConfig(cfg)
			s := &kmip.Server{TLSConfig: cfg, ReadTimeout: T, WriteTimeout: T}
			if withAuth {
				s.SessionAuthHandler = func(c net.Conn) (interface{}, error) { return 1, nil }
			}
			sc, cc := rec.Pipe()
			l := rec.NewListener()
			l.Push(rec.AcceptStep{Conn: tls.Server(rec.NewConn(sc, 1), cfg)})
			init := make(chan struct{})
			ret := make(chan error, 1)
			go func() { ret <- s.Serve(l, init) }()
			<-init
			_ = cc.SetDeadline(time.Now().Add(6 * time.Second))
			tc := tls.Client(cc, &tls.Config{RootCAs: ca.Pool, ServerName: "kmip.test", Certificates: []tls.Certificate{clientCert}})
			obs := ""
			time.Sleep(T * 6 / 10)
			if err := tc.Handshake(); err != nil {
				obs = "handshake begun 0.6 T after connecting failed: " + err.Error()
			} else {
				time.Sleep(T * 6 / 10)
				req := kmip.Request{Header: kmip.RequestHeader{Version: kmip.ProtocolVersion{Major: 1, Minor: 4}, BatchCount: 1},
					BatchItems: []kmip.RequestBatchItem{{Operation: kmip.OPERATION_DISCOVER_VERSIONS, RequestPayload: kmip.DiscoverVersionsRequest{}}}}
				var resp kmip.Response
				err := kmip.NewEncoder(tc).Encode(&req)
				if err == nil {
					err = kmip.NewDecoder(tc).Decode(&resp)
				}
				if err != nil {
					obs = "first request, sent 0.6 T after the handshake, not answered: " + err.Error()
				} else {
					obs = "answered"
				}
			}
			cc.Close()
			ctx, cancel := context.WithTimeout(context.Background(), 5*time.Second)
			_ = s.Shutdown(ctx)
			cancel()
			<-ret
			mu.Lock()
			outs = append(outs, outcome{key, obs})
			mu.Unlock()
		}()
	}
	wg.Wait()
	for _, o := range outs {
		r.Stats["slow-handshake-scenarios"]++
		if o.obs != "answered" {
			r.find(Finding{Kind: "violation", What: "the TLS handshake and the first request did not each get a fresh read deadline", Input: o.key, Expect: "answered", Actual: o.obs})
		}
	}
}

// c15StalledWrite: the peer sends a complete request and then stops READING: the response cannot be written. With
// WriteTimeout W the write deadline armed before the response expires and "such a peer is disconnected": the connection is
// closed at about W - whatever ReadTimeout is (zero included) - and a further request the peer may have queued is not
// processed. With WriteTimeout zero no deadline is set and the server waits.
func c15StalledWrite(r *Result) {
	const W = 200 * time.Millisecond
	for _, c := range []struct {
		rt, wt time.Duration
		second bool
	}{{0, W, false}, {20 * W, W, false}, {0, W, true}, {W, W, true}, {0, 0, false}} {
		key := fmt.Sprintf("peer stops reading after its %s: ReadTimeout=%v WriteTimeout=%v", map[bool]string{false: "first request", true: "first exchange (second response stalls, a third request is queued)"}[c.second], c.rt, c.wt)
		crumb("C15 " + key)
		r.eval(key, true)
		var calls int32
		s := &kmip.Server{ReadTimeout: c.rt, WriteTimeout: c.wt}
		s.Handle(kmip.OPERATION_ACTIVATE, func(ctx *kmip.RequestContext, item *kmip.RequestBatchItem) (interface{}, error) {
			atomic.AddInt32(&calls, 1)
			return kmip.ActivateResponse{UniqueIdentifier: "x"}, nil
		})
		sc, cc := rec.Pipe()
		rc := rec.NewConn(sc, 1)
		rc.StallWriteFrom = 1
		if c.second {
			rc.StallWriteFrom = 2
		}
		l := rec.NewListener()
		l.Push(rec.AcceptStep{Conn: rc})
		init := make(chan struct{})
		ret := make(chan error, 1)
		go func() { ret <- s.Serve(l, init) }()
		<-init
		_ = cc.SetDeadline(time.Now().Add(6 * time.Second))
		req := kmip.Request{Header: kmip.RequestHeader{Version: kmip.ProtocolVersion{Major: 1, Minor: 4}, BatchCount: 1},
			BatchItems: []kmip.RequestBatchItem{{Operation: kmip.OPERATION_ACTIVATE, RequestPayload: kmip.ActivateRequest{UniqueIdentifier: "a"}}}}
		enc := kmip.NewEncoder(cc)
		t0 := time.Now()
		_ = enc.Encode(&req)
		want := 1
		if c.second {
			var resp kmip.Response
			_ = kmip.NewDecoder(cc).Decode(&resp)
			t0 = time.Now()
			_ = enc.Encode(&req) // its response stalls
			_ = enc.Encode(&req) // queued behind it: must never be processed
			want = 2
		}
		closedAfter := time.Duration(-1)
		select {
		case <-rc.Closed():
			closedAfter = time.Since(t0)
		case <-time.After(8 * W):
		}
		obs := fmt.Sprintf("closed-by-the-server=%v handler-calls=%d", closedAfter >= 0, atomic.LoadInt32(&calls))
		exp := fmt.Sprintf("closed-by-the-server=true handler-calls=%d", want)
		if c.wt == 0 {
			exp = fmt.Sprintf("closed-by-the-server=false handler-calls=%d", want)
		}
		if obs != exp {
			r.find(Finding{Kind: "violation", What: "a peer that stalls while the response is being written was not treated as the write deadline prescribes", Input: key, Expect: exp, Actual: fmt.Sprintf("%s (after %v)", obs, closedAfter.Round(time.Millisecond))})
		} else if c.wt != 0 && (closedAfter < c.wt/2 || closedAfter > 4*c.wt) {
			r.find(Finding{Kind: "violation", What: "the stalled peer was disconnected, but not at the write deadline", Input: key, Expect: fmt.Sprintf("about %v", c.wt), Actual: closedAfter.Round(time.Millisecond).String()})
		}
		cc.Close()
		rc.Close()
		ctx, cancel := context.WithTimeout(context.Background(), 3*time.Second)
		_ = s.Shutdown(ctx)
		cancel()
		select {
		case <-ret:
		case <-time.After(3 * time.Second):
		}
		r.Stats["stalled-write-scenarios"]++
	}
}
