package main

import (
	"bytes"
	"encoding/binary"
	"fmt"
	"io"
	"os"
	"reflect"
	"runtime"
	"strings"
	"sync/atomic"
	"time"

	kmip "github.com/smira/go-kmip"

	"kvharness/internal/drv"
	"kvharness/internal/gen"
	"kvharness/internal/mut"
	"kvharness/internal/render"
)

// ---- C05: Decode allocation is bounded by the bytes received --------------------------------------------------

func init() { props["C05"] = runC05 }

const (
	allocA = 1600      // bytes allocated per input byte (KmipModel/Alloc.lean `A`)
	allocB = 64 * 1024 // fixed part: decoder, reflect caches, error values
)

// measureDecode returns the bytes allocated by one Decode call (runtime.MemStats.TotalAlloc delta)
func measureDecode(t reflect.Type, data []byte) (alloc uint64, class string) {
	if len(data) <= 2048 {
		crumb("C05: Decode into " + t.Name() + " of " + hx(data))
	}
	return measureDecodeFrom(t, bytes.NewReader(data))
}

// fragReader delivers data `step` bytes per Read, each preceded by `empties` reads of (0, nil); with eofWithData the last
// piece comes together with io.EOF. It is a plain io.Reader (the Decoder puts its own bufio.Reader on top).
type fragReader struct {
	data        []byte
	step        int
	empties     int
	eofWithData bool
	idle        int
	reads       int
}

func (f *fragReader) Read(p []byte) (int, error) {
	f.reads++
	if len(f.data) == 0 {
		return 0, io.EOF
	}
	if f.idle < f.empties {
		f.idle++
		return 0, nil
	}
	f.idle = 0
	n := f.step
	if n > len(p) {
		n = len(p)
	}
	if n > len(f.data) {
		n = len(f.data)
	}
	copy(p, f.data[:n])
	f.data = f.data[n:]
	if len(f.data) == 0 && f.eofWithData {
		return n, io.EOF
	}
	return n, nil
}

func measureDecodeFrom(t reflect.Type, r io.Reader) (alloc uint64, class string) {
	tgt := reflect.New(t)
	var m0, m1 runtime.MemStats
	runtime.ReadMemStats(&m0)
	var err error
	done := make(chan struct{})
	go func() {
		defer close(done)
		defer func() {
			if p := recover(); p != nil {
				class = "panic"
			}
		}()
		err = kmip.NewDecoder(r).Decode(tgt.Interface())
	}()
	select {
	case <-done:
	case <-time.After(20 * time.Second):
		return 0, "timeout"
	}
	runtime.ReadMemStats(&m1)
	if class == "" {
		class = classifyErr(err)
	}
	return m1.TotalAlloc - m0.TotalAlloc, class
}

var hostileLens = []uint32{0, 1, 1 << 16, 1 << 20, 1 << 30, 1<<32 - 1, 1<<32 - 8, 1 << 31}

func runC05(r *Result, d *drv.Driver, tier string, seed int64, replay string) {
	nValid := 60
	if tier == "thorough" {
		nValid = 600
	}
	r.Rule = fmt.Sprintf("per-call allocation (runtime.MemStats.TotalAlloc delta) of the real Decode on: valid messages; every item position of every message (string, bytes, structure, skipped, fixed) with its declared length replaced by each of {0, 1, 2^16, 2^20, 2^30, 2^31, 2^32-8, 2^32-1}, with and without truncating the input right after that header, the same lie under another item type (structure / text / bytes), every Integer / Enumeration value (counts such as Batch Count) set to 2^16 / 2^20 / 2^22, and the same with every enclosing structure's length inflated consistently (so the lying item fits its parents); long values lying about their length while backed by 4-12 KiB of real payload; random mutations; every one of these measurements is also compared with what the cost semantics of the decoder model (KmipModel/DecodeCost.lean, driver `deccost`) charges for that very input - the real allocation must stay below the model's charge with its fixed part taken as 16 KiB, and the charge below the proved bound; a small hostile message decoded by a Decoder that has just decoded an honest message with a 64 KiB / 1 MiB / 8 MiB value (allocation per call, whatever the Decoder saw before); a transport that starts failing for good (temporary / timeout net.Error, os.ErrDeadlineExceeded) at every 8-byte boundary and inside every item of two messages; honest messages of 64 KiB, 512 KiB and 4 MiB (long byte string, long text string, long run of items) whose per-byte cost must not grow with their size (<= 4x the 64 KiB value + 8). "+
		"Violation: allocation > %d x input length + %d bytes (the model's linear bound with A = %d). distinct = distinct input; non-trivial = carries a hostile length", allocA, allocB, allocA)
	types := allDecodeTypes()
	g := gen.New(seed)
	g.WF = true
	inputs := buildDecInputs(g, nValid, 4, mut.Kinds)
	base := len(inputs)
	for _, in := range inputs[:nValid] {
		nodes := mut.All(mut.Parse(in.data))
		for _, nd := range nodes {
			// counts are untrusted too: every Integer / Enumeration VALUE (Batch Count, Located Items, lengths and indices inside
			// payloads) set to a large number, the rest of the message left as it is, and cut right behind the next item header
			if (nd.Typ == 2 || nd.Typ == 5) && nd.Len == 4 {
				for _, hv := range []uint32{1 << 16, 1 << 20, 1 << 22} {
					b := append([]byte(nil), in.data...)
					binary.BigEndian.PutUint32(b[nd.Off+8:], hv)
					inputs = append(inputs, decInput{typ: in.typ, data: b, origin: "hostile-value:count"})
					if cut := nd.End + 8; cut < len(b) {
						inputs = append(inputs, decInput{typ: in.typ, data: b[:cut], origin: "hostile-value-cut:count"})
					}
				}
			}
			for _, hl := range hostileLens {
				b := append([]byte(nil), in.data...)
				binary.BigEndian.PutUint32(b[nd.Off+4:], hl)
				inputs = append(inputs, decInput{typ: in.typ, data: b, origin: fmt.Sprintf("hostile-len:type%d", nd.Typ)})
				// the same, with the stream ending right after the lying header (a message of a few bytes)
				inputs = append(inputs, decInput{typ: in.typ, data: b[:nd.Off+8], origin: fmt.Sprintf("hostile-len-cut:type%d", nd.Typ)})
				// the same lie under ANOTHER item type (a string position announcing a structure, a structure position announcing a
				// string, an integer announcing bytes): whatever special-cases a (tag, type) pair must not trust the length either
				if hl >= 1<<16 {
					for _, ty := range []byte{1, 7, 8} {
						if ty == nd.Typ {
							continue
						}
						for _, l2 := range []uint32{hl, hl &^ 7} {
							t := append([]byte(nil), b...)
							t[nd.Off+3] = ty
							binary.BigEndian.PutUint32(t[nd.Off+4:], l2)
							inputs = append(inputs, decInput{typ: in.typ, data: t, origin: fmt.Sprintf("hostile-type:type%d-as-%d", nd.Typ, ty)})
							if l2 == hl {
								break
							}
						}
					}
				}
				// lengths that agree with each other: every enclosing structure lies as well (so the lying item "fits")
				if nd.Parent != nil && hl >= 1<<16 {
					c := append([]byte(nil), b...)
					up := uint64(hl)
					for p := nd.Parent; p != nil; p = p.Parent {
						up += 8
						if up > 1<<32-8 {
							up = 1<<32 - 8
						}
						binary.BigEndian.PutUint32(c[p.Off+4:], uint32(up))
					}
					inputs = append(inputs, decInput{typ: in.typ, data: c, origin: fmt.Sprintf("hostile-chain:type%d", nd.Typ)})
					cut := nd.Off + 16
					if cut > len(c) {
						cut = len(c)
					}
					inputs = append(inputs, decInput{typ: in.typ, data: c[:cut], origin: fmt.Sprintf("hostile-chain-cut:type%d", nd.Typ)})
				}
			}
		}
		if len(inputs) > 60000 && tier != "thorough" {
			break
		}
	}
	// long values: the lying item is backed by several KiB of real payload (so that any "grow as data arrives" logic is
	// exercised), every enclosing structure lies consistently, and the input stops after 4 KiB / 8 KiB / 12 KiB of payload
	for _, v := range []struct {
		typ string
		val interface{}
	}{
		{"Name", kmip.Name{Value: strings.Repeat("n", 13000), Type: 1}},
		{"Request", kmip.Request{Header: kmip.RequestHeader{Version: kmip.ProtocolVersion{Major: 1, Minor: 4}, BatchCount: 1},
			BatchItems: []kmip.RequestBatchItem{{Operation: kmip.OPERATION_GET, RequestPayload: kmip.GetRequest{UniqueIdentifier: strings.Repeat("u", 13000)}}}}},
		{"Response", kmip.Response{Header: kmip.ResponseHeader{Version: kmip.ProtocolVersion{Major: 1, Minor: 4}, BatchCount: 1},
			BatchItems: []kmip.ResponseBatchItem{{Operation: kmip.OPERATION_ACTIVATE, UniqueID: bytes.Repeat([]byte{7}, 13000), ResponsePayload: kmip.ActivateResponse{UniqueIdentifier: "x"}}}}},
	} {
		var eb bytes.Buffer
		if err := kmip.NewEncoder(&eb).Encode(v.val); err != nil {
			continue
		}
		data := eb.Bytes()
		for _, nd := range mut.All(mut.Parse(data)) {
			if nd.Typ == 1 || nd.Len < 12000 {
				continue
			}
			for _, hl := range []uint32{1 << 20, 1 << 26, 1 << 30, 1<<32 - 16} {
				c := append([]byte(nil), data...)
				binary.BigEndian.PutUint32(c[nd.Off+4:], hl)
				up := uint64(hl)
				for p := nd.Parent; p != nil; p = p.Parent {
					up += 4096
					if up > 1<<32-8 {
						up = 1<<32 - 8
					}
					binary.BigEndian.PutUint32(c[p.Off+4:], uint32(up))
				}
				for _, keep := range []int{4096 + 16, 8192 + 16, 12000} {
					inputs = append(inputs, decInput{typ: v.typ, data: c[:nd.Off+8+keep], origin: fmt.Sprintf("hostile-long:type%d", nd.Typ)})
				}
			}
		}
	}
	// the classic: a 32-byte request claiming a 2^32-1 byte string
	classic := []byte{0x42, 0x00, 0x78, 0x01, 0, 0, 0, 0x18, 0x42, 0x00, 0x77, 0x01, 0, 0, 0, 0x10, 0x42, 0x01, 0x05, 0x07, 0xff, 0xff, 0xff, 0xff, 1, 2, 3, 4, 5, 6, 7, 8}
	inputs = append([]decInput{{typ: "Request", data: classic, origin: "hostile-len:classic"}}, inputs...)
	base++
	// warm up reflection caches so that one-time allocations are not attributed to an input
	for i := 1; i < 21 && i < len(inputs); i++ {
		measureDecode(types[inputs[i].typ], inputs[i].data)
	}
	var worst float64
	nviol := 0
	type measured struct {
		in    decInput
		alloc uint64
	}
	var ms []measured
	for i, in := range inputs {
		if nviol >= 4 {
			r.Notes = append(r.Notes, "stopped after 4 allocations beyond the bound (each may be gigabytes)")
			break
		}
		alloc, class := measureDecode(types[in.typ], in.data)
		bound := uint64(allocA*len(in.data) + allocB)
		if class != "timeout" && class != "panic" {
			ms = append(ms, measured{in, alloc})
		}
		r.eval(in.typ+":"+hx(in.data), i >= base)
		r.Stats["origin:"+strings.SplitN(strings.SplitN(in.origin, "+", 2)[0], ":", 2)[0]]++
		r.Stats["class:"+class]++
		ratio := float64(alloc) / float64(len(in.data)+1)
		if ratio > worst {
			worst = ratio
		}
		if i%2503 == 0 || in.origin == "hostile-len:classic" {
			r.sample(map[string]interface{}{"type": in.typ, "origin": in.origin, "input_bytes": len(in.data), "allocated": alloc, "bound": bound, "outcome": class})
		}
		if alloc > bound {
			nviol++
			r.find(Finding{Kind: "violation", What: "Decode allocated more than the linear bound in the bytes received (" + strings.SplitN(in.origin, ":", 2)[0] + ")",
				Input: map[string]string{"type": in.typ, "bytes": hx(in.data)}, Expect: fmt.Sprintf("<= %d", bound), Actual: fmt.Sprint(alloc)})
		}
		if class == "timeout" {
			r.find(Finding{Kind: "violation", What: "Decode did not return on a hostile length (looping)", Input: map[string]string{"type": in.typ, "bytes": hx(in.data)}})
			r.Notes = append(r.Notes, "run cut short after a Decode call that did not return")
			break
		}
		if class == "panic" {
			r.find(Finding{Kind: "violation", What: "Decode panicked on a hostile length", Input: map[string]string{"type": in.typ, "bytes": hx(in.data)}})
		}
	}
	r.Stats["worst-bytes-allocated-per-input-byte"] = int(worst)
	// the cost semantics of the decoder model (KmipModel/DecodeCost.lean, about which C05_decode_cost_linear is proved) against
	// the measurement, input by input: what the real Decode allocated must stay under what the model charges for that very input
	{
		lines := make([]string, len(ms))
		for i, m := range ms {
			lines[i] = fmt.Sprintf("deccost %s eof %s", m.in.typ, hx(m.in.data))
		}
		replies, err := d.AskAll(lines)
		if err != nil {
			r.find(Finding{Kind: "disagreement", What: "driver failure", Input: err.Error()})
			return
		}
		var worstShare, worstTight float64
		worstTightIn := ""
		over := 0
		for i, m := range ms {
			var cost uint64
			if _, e := fmt.Sscanf(replies[i], "cost %d", &cost); e != nil {
				r.find(Finding{Kind: "disagreement", What: "the cost model gave no answer", Input: lines[i][:min(len(lines[i]), 300)], Actual: replies[i]})
				break
			}
			r.Stats["cost-model-comparisons"]++
			if cost > uint64(allocA*len(m.in.data)+allocB) {
				r.find(Finding{Kind: "disagreement", What: "the cost model charges more than the bound proved for it (C05_decode_cost_linear)", Input: map[string]string{"type": m.in.typ, "bytes": hx(m.in.data)}, Expect: fmt.Sprintf("<= %d", allocA*len(m.in.data)+allocB), Actual: fmt.Sprint(cost)})
			}
			if share := float64(m.alloc) / float64(cost); share > worstShare {
				worstShare = share
			}
			if share := float64(m.alloc) / float64(cost-65536+4096); share > worstTight {
				worstTight = share
				worstTightIn = fmt.Sprintf("%s %s alloc=%d cost=%d", m.in.typ, m.in.origin, m.alloc, cost)
			}
			// the model's fixed part B (64 KiB) is what the theorem needs for ANY caller; this process, with warm caches and an
			// io.ByteScanner as source, is held to 16 KiB of it, so that the per-structure and per-item charges are really tested
			tight := cost - 65536 + 16384
			if m.alloc > tight {
				// measured again, alone (TotalAlloc counts every goroutine of the process)
				again, _ := measureDecode(types[m.in.typ], m.in.data)
				if again > tight && over < 3 {
					over++
					r.find(Finding{Kind: "disagreement", What: "the real Decode allocated more than the decoder model's cost semantics charges for this input (the charges of KmipModel/DecodeCost.lean no longer bound the code)",
						Input: map[string]string{"type": m.in.typ, "bytes": hx(m.in.data), "origin": m.in.origin}, Expect: fmt.Sprintf("<= %d (model cost %d with its fixed part taken as 16 KiB)", tight, cost), Actual: fmt.Sprintf("%d, measured again: %d", m.alloc, again)})
				}
			}
		}
		r.Stats["worst-measured/model-cost-percent"] = int(worstShare * 100)
		r.Notes = append(r.Notes, fmt.Sprintf("cost model with its fixed part cut to 4 KiB: worst measured/model = %.2f (%s)", worstTight, worstTightIn))
	}
	c05Scaling(r)
	c05Fragmented(r)
	c05Faults(r)
	c05History(r)
	c05ReusedDestination(r)
	c05DeepSkip(r)
}

// c05DeepSkip: the item a `skip` field steps over (a vendor extension) may be a structure of any depth: thousands of
// structures nested in each other, every length honest. Stepping over it - complete, or cut 8 bytes / half-way short - costs
// what stepping over a flat item of that size costs: linear in the bytes received, whatever is inside.
func c05DeepSkip(r *Result) {
	types := allDecodeTypes()
	base := &kmip.Request{Header: kmip.RequestHeader{Version: kmip.ProtocolVersion{Major: 1, Minor: 4}, BatchCount: 1},
		BatchItems: []kmip.RequestBatchItem{{Operation: kmip.OPERATION_DISCOVER_VERSIONS, RequestPayload: kmip.DiscoverVersionsRequest{},
			MessageExtension: kmip.MessageExtension{VendorIdentification: "acme", CriticalityIndicator: true}}}}
	var eb bytes.Buffer
	if err := kmip.NewEncoder(&eb).Encode(base); err != nil {
		r.find(Finding{Kind: "disagreement", What: "cannot encode the deep-skip base message", Actual: err.Error()})
		return
	}
	data0 := eb.Bytes()
	for _, depth := range []int{200, 1000, 2000, 4000} {
		inner := []byte{0x54, 0x00, 0x01, 0x01, 0, 0, 0, 0}
		for i := 0; i < depth; i++ {
			h := []byte{0x54, 0x00, 0x01, 0x01, 0, 0, 0, 0}
			binary.BigEndian.PutUint32(h[4:], uint32(len(inner)))
			inner = append(h, inner...)
		}
		inner[0], inner[1], inner[2] = 0x42, 0x00, 0x7d // the outermost one is the Vendor Extension item
		var msg []byte
		for _, n := range mut.All(mut.Parse(data0)) {
			if n.Tag == 0x420051 {
				msg = append(append(append([]byte(nil), data0[:n.End]...), inner...), data0[n.End:]...)
				for p := n; p != nil; p = p.Parent {
					binary.BigEndian.PutUint32(msg[p.Off+4:], binary.BigEndian.Uint32(msg[p.Off+4:])+uint32(len(inner)))
				}
			}
		}
		if msg == nil {
			continue
		}
		for _, cut := range []int{0, 8, len(inner) / 2} {
			in := msg[:len(msg)-cut]
			key := fmt.Sprintf("deep-skip: Request whose vendor extension is %d structures nested in each other (%d bytes), %d bytes cut off the end", depth, len(msg), cut)
			crumb("C05 " + key)
			r.eval(key, true)
			alloc, class := measureDecode(types["Request"], in)
			r.Stats["deep-skip-measurements"]++
			bound := uint64(allocA*len(in) + allocB)
			if alloc > bound {
				r.find(Finding{Kind: "violation", What: "Decode allocated more than the linear bound in the bytes received while stepping over a deeply nested vendor extension", Input: map[string]string{"scenario": key, "first_bytes": hx(in[:min(len(in), 200)])},
					Expect: fmt.Sprintf("<= %d", bound), Actual: fmt.Sprintf("%d (outcome %s)", alloc, class)})
			}
			if cut == 0 && class != "ok" {
				r.find(Finding{Kind: "violation", What: "a well-formed message with a deeply nested vendor extension was not decoded", Input: key, Expect: "ok", Actual: class})
			}
			if class == "panic" || class == "timeout" {
				r.find(Finding{Kind: "violation", What: "Decode did not return an error or a value on a deeply nested vendor extension", Input: key, Actual: class})
			}
		}
	}
}

// c05History: "allocation measured per Decode call" - on a connection one Decoder decodes message after message, and what a
// call may allocate is bounded by the bytes available to THAT call, not by anything the Decoder has seen before. One Decoder
// first decodes honest messages carrying large values (64 KiB, 1 MiB, 8 MiB strings and byte strings, a long run of items);
// then, on the same Decoder, a message of about a hundred bytes whose string / byte string / structure declares 2^20, 2^30 or
// 2^32-16 bytes. The second call alone is measured.
func c05History(r *Result) {
	ver := kmip.ProtocolVersion{Major: 1, Minor: 4}
	enc := func(v interface{}) []byte {
		var b bytes.Buffer
		if err := kmip.NewEncoder(&b).Encode(v); err != nil {
			return nil
		}
		return b.Bytes()
	}
	for _, big := range []int{64 << 10, 1 << 20, 8 << 20} {
		firsts := []struct {
			name string
			typ  string
			data []byte
		}{
			{fmt.Sprintf("Request / Get with a Unique Identifier of %d bytes", big), "Request", enc(&kmip.Request{Header: kmip.RequestHeader{Version: ver, BatchCount: 1},
				BatchItems: []kmip.RequestBatchItem{{Operation: kmip.OPERATION_GET, RequestPayload: kmip.GetRequest{UniqueIdentifier: strings.Repeat("u", big)}}}})},
			{fmt.Sprintf("Request with a Unique Batch Item ID of %d bytes", big), "Request", enc(&kmip.Request{Header: kmip.RequestHeader{Version: ver, BatchCount: 1},
				BatchItems: []kmip.RequestBatchItem{{Operation: kmip.OPERATION_GET, UniqueID: bytes.Repeat([]byte{9}, big), RequestPayload: kmip.GetRequest{UniqueIdentifier: "k"}}}})},
		}
		small := enc(&kmip.Request{Header: kmip.RequestHeader{Version: ver, ClientCorrelationValue: "c", BatchCount: 1},
			BatchItems: []kmip.RequestBatchItem{{Operation: kmip.OPERATION_GET, UniqueID: []byte{1, 2, 3}, RequestPayload: kmip.GetRequest{UniqueIdentifier: "0123456789"}}}})
		for _, first := range firsts {
			if first.data == nil || small == nil {
				continue
			}
			for _, nd := range mut.All(mut.Parse(small)) {
				if nd.Typ != 7 && nd.Typ != 8 && nd.Typ != 1 {
					continue
				}
				for _, hl := range []uint32{1 << 20, 1 << 30, 1<<32 - 16} {
					second := append([]byte(nil), small...)
					binary.BigEndian.PutUint32(second[nd.Off+4:], hl)
					for p := nd.Parent; p != nil; p = p.Parent {
						binary.BigEndian.PutUint32(second[p.Off+4:], hl+uint32(p.End-p.Off))
					}
					key := fmt.Sprintf("history: one Decoder, first %s, then a %d-byte Request whose item %06x (type %d) declares %d bytes", first.name, len(second), nd.Tag, nd.Typ, hl)
					crumb("C05 " + key)
					r.eval(key, true)
					stream := append(append([]byte(nil), first.data...), second...)
					dec := kmip.NewDecoder(bytes.NewReader(stream))
					var m1 kmip.Request
					if err := dec.Decode(&m1); err != nil {
						r.find(Finding{Kind: "disagreement", What: "the honest first message of a history scenario was not decoded", Input: key, Actual: err.Error()})
						continue
					}
					var m0, mAfter runtime.MemStats
					var m2 kmip.Request
					runtime.ReadMemStats(&m0)
					err := dec.Decode(&m2)
					runtime.ReadMemStats(&mAfter)
					alloc := mAfter.TotalAlloc - m0.TotalAlloc
					r.Stats["history-measurements"]++
					bound := uint64(allocA*len(second) + allocB)
					if alloc > bound {
						r.find(Finding{Kind: "violation", What: "a Decode call allocated more than the linear bound in the bytes available to it: the allocation follows what the Decoder has seen in earlier calls",
							Input:  map[string]string{"scenario": key, "second_message": hx(second)},
							Expect: fmt.Sprintf("<= %d", bound), Actual: fmt.Sprintf("%d (outcome: %v)", alloc, err)})
					}
					if err == nil {
						r.find(Finding{Kind: "violation", What: "Decode reported success for a message declaring more bytes than arrived", Input: map[string]string{"scenario": key, "second_message": hx(second)}, Expect: "an error", Actual: "nil"})
					}
				}
			}
		}
	}
}

// c05ReusedDestination: the other thing that has a history is the VALUE handed to Decode - an application that decodes every
// message of a connection into the same variable. A Request / Response that has just received a message with 2 000 / 20 000
// batch items (or a long attribute list) is handed to Decode again, by the same or a fresh Decoder, with a small message: the
// second call's allocation is bounded in the bytes of the second message, and its result is the second message.
func c05ReusedDestination(r *Result) {
	ver := kmip.ProtocolVersion{Major: 1, Minor: 4}
	enc := func(v interface{}) []byte {
		var b bytes.Buffer
		if err := kmip.NewEncoder(&b).Encode(v); err != nil {
			return nil
		}
		return b.Bytes()
	}
	small := enc(&kmip.Request{Header: kmip.RequestHeader{Version: ver, BatchCount: 1},
		BatchItems: []kmip.RequestBatchItem{{Operation: kmip.OPERATION_GET, RequestPayload: kmip.GetRequest{UniqueIdentifier: "0123456789"}}}})
	smallResp := enc(&kmip.Response{Header: kmip.ResponseHeader{Version: ver, TimeStamp: time.Unix(1000000000, 0), BatchCount: 1},
		BatchItems: []kmip.ResponseBatchItem{{Operation: kmip.OPERATION_GET_ATTRIBUTE_LIST, ResponsePayload: kmip.GetAttributeListResponse{UniqueIdentifier: "k", AttributeNames: []string{"Name"}}}}})
	for _, n := range []int{2000, 20000} {
		items := make([]kmip.RequestBatchItem, n)
		for i := range items {
			items[i] = kmip.RequestBatchItem{Operation: kmip.OPERATION_GET, RequestPayload: kmip.GetRequest{UniqueIdentifier: "k"}}
		}
		big := enc(&kmip.Request{Header: kmip.RequestHeader{Version: ver, BatchCount: int32(n)}, BatchItems: items})
		ritems := make([]kmip.ResponseBatchItem, n)
		for i := range ritems {
			ritems[i] = kmip.ResponseBatchItem{Operation: kmip.OPERATION_DESTROY, ResponsePayload: kmip.DestroyResponse{UniqueIdentifier: "k"}}
		}
		bigResp := enc(&kmip.Response{Header: kmip.ResponseHeader{Version: ver, TimeStamp: time.Unix(1000000000, 0), BatchCount: int32(n)}, BatchItems: ritems})
		for _, sameDecoder := range []bool{false, true} {
			for _, c := range []struct {
				name          string
				first, second []byte
				dest, fresh   interface{}
			}{
				{"Request", big, small, &kmip.Request{}, &kmip.Request{}},
				{"Response", bigResp, smallResp, &kmip.Response{}, &kmip.Response{}},
			} {
				if c.first == nil || c.second == nil {
					r.find(Finding{Kind: "disagreement", What: "cannot encode the destination-reuse messages", Input: c.name})
					continue
				}
				key := fmt.Sprintf("reused destination: a %s variable that has just received a message with %d batch items is handed to Decode again (same Decoder: %v) with a %d-byte message", c.name, n, sameDecoder, len(c.second))
				crumb("C05 " + key)
				r.eval(key, true)
				var d1, d2 *kmip.Decoder
				if sameDecoder {
					d1 = kmip.NewDecoder(bytes.NewReader(append(append([]byte(nil), c.first...), c.second...)))
					d2 = d1
				} else {
					d1 = kmip.NewDecoder(bytes.NewReader(c.first))
					d2 = kmip.NewDecoder(bytes.NewReader(c.second))
				}
				if err := d1.Decode(c.dest); err != nil {
					r.find(Finding{Kind: "disagreement", What: "the honest first message of a destination-reuse scenario was not decoded", Input: key, Actual: err.Error()})
					continue
				}
				var m0, m1 runtime.MemStats
				runtime.ReadMemStats(&m0)
				err := d2.Decode(c.dest)
				runtime.ReadMemStats(&m1)
				alloc := m1.TotalAlloc - m0.TotalAlloc
				r.Stats["reused-destination-measurements"]++
				bound := uint64(allocA*len(c.second) + allocB)
				if alloc > bound {
					r.find(Finding{Kind: "violation", What: "a Decode call allocated more than the linear bound in the bytes available to it: the allocation follows what the destination value held before the call",
						Input: map[string]string{"scenario": key, "second_message": hx(c.second)}, Expect: fmt.Sprintf("<= %d", bound), Actual: fmt.Sprintf("%d (outcome: %v)", alloc, err)})
				}
				if e2 := kmip.NewDecoder(bytes.NewReader(c.second)).Decode(c.fresh); err != nil || e2 != nil || !reflect.DeepEqual(c.dest, c.fresh) {
					r.find(Finding{Kind: "violation", What: "decoding into a value that held an earlier message does not give the message decoded", Input: map[string]string{"scenario": key, "second_message": hx(c.second)},
						Expect: render.Top(c.fresh), Actual: fmt.Sprintf("%s (errors %v, %v)", render.Top(c.dest), err, e2)})
				}
			}
		}
	}
}

type tempNetErr struct{ timeout bool }

func (e tempNetErr) Error() string   { return "harness: transient transport fault" }
func (e tempNetErr) Timeout() bool   { return e.timeout }
func (e tempNetErr) Temporary() bool { return true }

// faultReader delivers data[:cut] (in pieces of `step`), then reports the same transport fault on every further Read - a read
// deadline that has passed stays passed - `persist` times, and a permanent error after that (so that a Decode that keeps
// asking still comes back and can be measured)
type faultReader struct {
	data     []byte
	cut      int
	step     int
	fault    error
	persist  int
	pos      int
	faults   int
	faults64 int64
	gaveUp   int32
}

func (f *faultReader) Read(p []byte) (int, error) {
	if f.pos < f.cut {
		n := f.step
		if n > len(p) {
			n = len(p)
		}
		if n > f.cut-f.pos {
			n = f.cut - f.pos
		}
		copy(p, f.data[f.pos:f.pos+n])
		f.pos += n
		return n, nil
	}
	n := atomic.AddInt64(&f.faults64, 1)
	f.faults = int(n)
	if f.faults > f.persist || atomic.LoadInt32(&f.gaveUp) == 1 {
		return 0, io.ErrClosedPipe
	}
	return 0, f.fault
}

func (f *faultReader) failed() int { return int(atomic.LoadInt64(&f.faults64)) }
func (f *faultReader) giveUp()     { atomic.StoreInt32(&f.gaveUp, 1) }

// c05Faults: the transport fails in the middle of a message - at every 8-byte boundary and inside every item, string payloads
// included - with an error that stays (a passed read deadline: net.Error, Timeout() and Temporary() both true; a temporary
// error that is no timeout; os.ErrDeadlineExceeded itself). Whatever Decode does about the fault, what it allocates is still
// bounded by the bytes that DID arrive, and it does not report success.
func c05Faults(r *Result) {
	ver := kmip.ProtocolVersion{Major: 1, Minor: 4}
	types := allDecodeTypes()
	msgs := []struct {
		typ string
		v   interface{}
	}{
		{"Request", &kmip.Request{Header: kmip.RequestHeader{Version: ver, ClientCorrelationValue: strings.Repeat("c", 300), BatchCount: 1},
			BatchItems: []kmip.RequestBatchItem{{Operation: kmip.OPERATION_GET, UniqueID: bytes.Repeat([]byte{5}, 21), RequestPayload: kmip.GetRequest{UniqueIdentifier: strings.Repeat("u", 70)}}}}},
		{"Response", &kmip.Response{Header: kmip.ResponseHeader{Version: ver, TimeStamp: time.Unix(1000000000, 0), BatchCount: 1},
			BatchItems: []kmip.ResponseBatchItem{{Operation: kmip.OPERATION_DECRYPT, ResultMessage: strings.Repeat("m", 50), ResponsePayload: kmip.DecryptResponse{UniqueIdentifier: "k", Data: bytes.Repeat([]byte{7}, 5000)}}}}},
	}
	faults := []struct {
		name string
		err  error
	}{
		{"net.Error with Timeout() and Temporary() true (a passed read deadline)", tempNetErr{true}},
		{"net.Error with Temporary() true only", tempNetErr{false}},
		{"os.ErrDeadlineExceeded", os.ErrDeadlineExceeded},
	}
	for _, m := range msgs {
		var eb bytes.Buffer
		if err := kmip.NewEncoder(&eb).Encode(m.v); err != nil {
			r.find(Finding{Kind: "disagreement", What: "cannot encode the fault-injection message", Input: m.typ, Actual: err.Error()})
			continue
		}
		data := eb.Bytes()
		cuts := map[int]bool{}
		for c := 0; c < len(data); c += 8 {
			cuts[c] = true
		}
		for _, nd := range mut.All(mut.Parse(data)) {
			for _, c := range []int{nd.Off + 3, nd.Off + 5, nd.Off + 8, nd.Off + 9, nd.Off + 8 + int(nd.Len)/2, nd.End - 1} {
				if c > 0 && c < len(data) {
					cuts[c] = true
				}
			}
		}
		nviol := 0
		for cut := range cuts {
			for fi, ft := range faults {
				if nviol >= 3 {
					break
				}
				key := fmt.Sprintf("fault: %s of %d bytes, %d bytes delivered (in pieces of %d), then every Read fails with %s", m.typ, len(data), cut, []int{1 << 20, 7}[fi%2], ft.name)
				crumb("C05 " + key)
				r.eval(key, true)
				fr := &faultReader{data: data, cut: cut, step: []int{1 << 20, 7}[fi%2], fault: ft.err, persist: 3000}
				alloc, class := measureDecodeFrom(types[m.typ], fr)
				r.Stats["fault-measurements"]++
				bound := uint64(allocA*cut + allocB)
				in := map[string]string{"type": m.typ, "bytes": hx(data[:min(len(data), 512)]), "delivery": key}
				switch {
				case class == "timeout":
					r.Stats["fault-measurements-not-finished-in-20s"]++
				case alloc > bound:
					nviol++
					r.find(Finding{Kind: "violation", What: "Decode allocated more than the linear bound in the bytes received after the transport began to fail: the allocation follows the number of failing reads", Input: in,
						Expect: fmt.Sprintf("<= %d", bound), Actual: fmt.Sprintf("%d (%d failing reads)", alloc, fr.faults)})
				case class == "ok":
					nviol++
					r.find(Finding{Kind: "violation", What: "Decode reported success for a message the transport never delivered in full", Input: in, Expect: "an error", Actual: "ok"})
				}
			}
		}
	}
}

// c05Fragmented: "a fixed linear function of the number of input bytes actually available" - however those bytes arrive. The
// same honest and hostile messages are delivered whole, one byte per Read, 7 and 1000 bytes per Read, with 0, 3 and 40
// zero-length reads before every piece, and with the last piece arriving together with io.EOF; the allocation of each Decode
// call must stay under the same bound in the BYTES (reads that deliver nothing make nothing available), and its outcome must
// be the one of the whole delivery.
func c05Fragmented(r *Result) {
	ver := kmip.ProtocolVersion{Major: 1, Minor: 4}
	type fm struct {
		name string
		typ  string
		data []byte
	}
	var msgs []fm
	add := func(name, typ string, v interface{}, lie func(b []byte) []byte) {
		var eb bytes.Buffer
		if err := kmip.NewEncoder(&eb).Encode(v); err != nil {
			r.find(Finding{Kind: "disagreement", What: "cannot encode the fragmentation message", Input: name, Actual: err.Error()})
			return
		}
		b := eb.Bytes()
		if lie != nil {
			b = lie(b)
		}
		msgs = append(msgs, fm{name, typ, b})
	}
	for _, n := range []int{0, 5, 2000, 9000, 70000} {
		n := n
		add(fmt.Sprintf("Request / Get, Unique Identifier of %d bytes", n), "Request", &kmip.Request{Header: kmip.RequestHeader{Version: ver, BatchCount: 1},
			BatchItems: []kmip.RequestBatchItem{{Operation: kmip.OPERATION_GET, RequestPayload: kmip.GetRequest{UniqueIdentifier: strings.Repeat("u", n)}}}}, nil)
		add(fmt.Sprintf("Response / Decrypt, Data of %d bytes", n), "Response", &kmip.Response{Header: kmip.ResponseHeader{Version: ver, TimeStamp: time.Unix(1000000000, 0), BatchCount: 1},
			BatchItems: []kmip.ResponseBatchItem{{Operation: kmip.OPERATION_DECRYPT, UniqueID: bytes.Repeat([]byte{3}, n/2), ResponsePayload: kmip.DecryptResponse{UniqueIdentifier: "k", Data: bytes.Repeat([]byte{7}, n)}}}}, nil)
	}
	// a hostile one: the long string announces 2^30 bytes (all enclosing lengths inflated), 1500 bytes of it really arrive
	add("Request / Get, Unique Identifier announcing 2^30 bytes, 1500 delivered", "Request", &kmip.Request{Header: kmip.RequestHeader{Version: ver, BatchCount: 1},
		BatchItems: []kmip.RequestBatchItem{{Operation: kmip.OPERATION_GET, RequestPayload: kmip.GetRequest{UniqueIdentifier: strings.Repeat("u", 1500)}}}}, func(b []byte) []byte {
		for _, nd := range mut.All(mut.Parse(b)) {
			if nd.Typ == 7 && nd.Len == 1500 {
				binary.BigEndian.PutUint32(b[nd.Off+4:], 1<<30)
				for p := nd.Parent; p != nil; p = p.Parent {
					binary.BigEndian.PutUint32(b[p.Off+4:], 1<<30+4096)
				}
			}
		}
		return b
	})
	types := allDecodeTypes()
	type delivery struct {
		step, empties int
		eofWithData   bool
	}
	deliveries := []delivery{{1, 0, false}, {1, 3, false}, {1, 40, false}, {7, 0, true}, {7, 40, false}, {1000, 0, false}, {1000, 3, true}, {1 << 30, 0, true}}
	for _, m := range msgs {
		whole, wclass := measureDecode(types[m.typ], m.data)
		bound := uint64(allocA*len(m.data) + allocB)
		for _, dl := range deliveries {
			if dl.step == 1 && dl.empties == 40 && len(m.data) > 20000 {
				continue // 3 million reads: left to the smaller messages
			}
			key := fmt.Sprintf("fragmented: %s (message of %d bytes), %d bytes per Read, %d zero-length reads before each, eof-with-data=%v", m.name, len(m.data), dl.step, dl.empties, dl.eofWithData)
			crumb("C05 " + key)
			r.eval(key, true)
			fr := &fragReader{data: m.data, step: dl.step, empties: dl.empties, eofWithData: dl.eofWithData}
			alloc, class := measureDecodeFrom(types[m.typ], fr)
			r.Stats["fragmented-measurements"]++
			in := map[string]string{"type": m.typ, "bytes": hx(m.data), "delivery": fmt.Sprintf("plain io.Reader: %d bytes per Read, %d reads of (0, nil) before each, last piece with io.EOF: %v (%d reads in all)", dl.step, dl.empties, dl.eofWithData, fr.reads)}
			if len(m.data) > 4096 {
				in["bytes"] = hx(m.data[:256]) + fmt.Sprintf("... (%s)", m.name)
			}
			if class != wclass {
				r.find(Finding{Kind: "violation", What: "the outcome of Decode depends on how the input is delivered (C05 fragmentation sweep)", Input: in, Expect: wclass, Actual: class})
				continue
			}
			if alloc > bound {
				r.find(Finding{Kind: "violation", What: "Decode allocated more than the linear bound in the bytes received when they arrive in pieces: the allocation follows the number of reads, not the bytes", Input: in,
					Expect: fmt.Sprintf("<= %d (whole delivery: %d)", bound, whole), Actual: fmt.Sprint(alloc)})
				continue
			}
			_ = whole
		}
	}
}

// c05Scaling: honest messages - every declared length true - whose real size grows from 64 KiB to 4 MiB (one long byte string,
// one long text string, one long run of small items). "A fixed linear function of the bytes available" means the cost per
// received byte does not grow with the message: it is measured at each size, and the largest message may cost at most 4x per
// byte what the smallest does (plus the model's bound, which is far looser). A reader that re-allocates its buffer by a fixed
// step, or re-copies what it has for every chunk, is quadratic and fails this by orders of magnitude.
func c05Scaling(r *Result) {
	ver := kmip.ProtocolVersion{Major: 1, Minor: 4}
	shapes := []struct {
		name string
		typ  string
		mk   func(n int) interface{}
	}{
		{"Response / Decrypt with a Data byte string of n bytes", "Response", func(n int) interface{} {
			return &kmip.Response{Header: kmip.ResponseHeader{Version: ver, TimeStamp: time.Unix(1000000000, 0), BatchCount: 1},
				BatchItems: []kmip.ResponseBatchItem{{Operation: kmip.OPERATION_DECRYPT, ResponsePayload: kmip.DecryptResponse{UniqueIdentifier: "k", Data: bytes.Repeat([]byte{7}, n)}}}}
		}},
		{"Request / Get with a Unique Identifier text string of n bytes", "Request", func(n int) interface{} {
			return &kmip.Request{Header: kmip.RequestHeader{Version: ver, BatchCount: 1},
				BatchItems: []kmip.RequestBatchItem{{Operation: kmip.OPERATION_GET, RequestPayload: kmip.GetRequest{UniqueIdentifier: strings.Repeat("u", n)}}}}
		}},
		{"Request / Get Attributes with n/16 attribute names", "Request", func(n int) interface{} {
			names := make([]string, n/16)
			for i := range names {
				names[i] = "x-name"
			}
			return &kmip.Request{Header: kmip.RequestHeader{Version: ver, BatchCount: 1},
				BatchItems: []kmip.RequestBatchItem{{Operation: kmip.OPERATION_GET_ATTRIBUTES, RequestPayload: kmip.GetAttributesRequest{UniqueIdentifier: "k", AttributeNames: names}}}}
		}},
	}
	types := allDecodeTypes()
	sizes := []int{64 << 10, 512 << 10, 4 << 20}
	for _, sh := range shapes {
		var per []float64
		var desc []string
		for _, n := range sizes {
			var eb bytes.Buffer
			if err := kmip.NewEncoder(&eb).Encode(sh.mk(n)); err != nil {
				r.find(Finding{Kind: "disagreement", What: "cannot encode the scaling message", Input: sh.name, Actual: err.Error()})
				return
			}
			data := eb.Bytes()
			key := fmt.Sprintf("scaling: %s, n=%d (message of %d bytes)", sh.name, n, len(data))
			crumb("C05 " + key)
			r.eval(key, true)
			alloc, class := measureDecode(types[sh.typ], data)
			r.Stats["scaling-measurements"]++
			if class != "ok" {
				r.find(Finding{Kind: "violation", What: "an honest large message was not decoded", Input: key, Expect: "ok", Actual: class})
				return
			}
			c := float64(alloc) / float64(len(data))
			per = append(per, c)
			desc = append(desc, fmt.Sprintf("%d bytes -> %d allocated (%.1f per byte)", len(data), alloc, c))
			if bound := uint64(allocA*len(data) + allocB); alloc > bound {
				r.find(Finding{Kind: "violation", What: "Decode allocated more than the linear bound in the bytes received (honest large message)", Input: key, Expect: fmt.Sprintf("<= %d", bound), Actual: fmt.Sprint(alloc)})
				return
			}
			if len(per) > 1 && c > 4*per[0]+8 {
				r.find(Finding{Kind: "violation", What: "the allocation per received byte grows with the size of the message: not a fixed linear function of the bytes received", Input: key,
					Expect: fmt.Sprintf("per-byte cost at most 4 x %.1f + 8 (its value for the 64 KiB message)", per[0]), Actual: strings.Join(desc, "; ")})
				return
			}
		}
		r.Notes = append(r.Notes, "scaling, "+sh.name+": "+strings.Join(desc, "; "))
	}
}
