package main

import (
	"context"
	"crypto/tls"
	"net"
	"strings"
	"sync"
	"fmt"
	"sync/atomic"
	"time"

	kmip "github.com/smira/go-kmip"

	"kvharness/internal/rec"
	"kvharness/internal/tlsm"
)

// c09Reconfigure: one long-lived connection while the request-authentication callback of the running Server is replaced
// between two of its requests (after the reply to the first has been read, so the assignment is ordered before the next
// request reaches the server). C09 speaks of the credentials "the request-authentication callback rejected or for which no
// such callback is configured": the callback in force when the request arrives decides. A request with credentials the
// current callback rejects (or with no callback left) must not reach a handler and the connection is closed without a reply;
// a request the current callback accepts is seen by the handler with the value THAT callback produced.
func c09Reconfigure(r *Result) {
	type authFn = func(sc *kmip.SessionContext, a *kmip.Authentication) (interface{}, error)
	accept := func(tag string) authFn {
		return func(sc *kmip.SessionContext, a *kmip.Authentication) (interface{}, error) { return tag, nil }
	}
	reject := func(sc *kmip.SessionContext, a *kmip.Authentication) (interface{}, error) {
		return nil, fmt.Errorf("revoked")
	}
	cases := []struct {
		name   string
		second authFn
		want   string // what the second request must see
	}{
		{"replaced by a callback that rejects the credentials", reject, "refused"},
		{"removed (nil)", nil, "refused"},
		{"replaced by a callback that accepts with another value", accept("B"), "served auth=B"},
		{"left in place", accept("A"), "served auth=A"},
	}
	for _, withCreds2 := range []bool{true, false} {
		for _, c := range cases {
			key := fmt.Sprintf("open connection, request with credentials under callback A, then callback %s, then a request %s", c.name, map[bool]string{true: "with credentials", false: "without credentials"}[withCreds2])
			crumb("C09 scenario: " + key)
			r.eval(key, true)
			var calls int32
			var seen atomic.Value
			s := &kmip.Server{}
			s.RequestAuthHandler = accept("A")
			s.Handle(kmip.OPERATION_ACTIVATE, func(ctx *kmip.RequestContext, item *kmip.RequestBatchItem) (interface{}, error) {
				atomic.AddInt32(&calls, 1)
				seen.Store(fmt.Sprint(ctx.RequestAuth))
				return kmip.ActivateResponse{UniqueIdentifier: "ok"}, nil
			})
			sc, cc := rec.Pipe()
			l := rec.NewListener()
			l.Push(rec.AcceptStep{Conn: rec.NewConn(sc, 1)})
			init := make(chan struct{})
			ret := make(chan error, 1)
			go func() { ret <- s.Serve(l, init) }()
			<-init
			_ = cc.SetDeadline(time.Now().Add(3 * time.Second))
			enc, dec := kmip.NewEncoder(cc), kmip.NewDecoder(cc)
			mk := func(creds bool) *kmip.Request {
				req := &kmip.Request{Header: kmip.RequestHeader{Version: kmip.ProtocolVersion{Major: 1, Minor: 4}, BatchCount: 1},
					BatchItems: []kmip.RequestBatchItem{{Operation: kmip.OPERATION_ACTIVATE, RequestPayload: kmip.ActivateRequest{UniqueIdentifier: "a"}}}}
				if creds {
					req.Header.Authentication = kmip.Authentication{CredentialType: kmip.CREDENTIAL_TYPE_USERNAME_AND_PASSWORD, CredentialValue: kmip.CredentialUsernamePassword{Username: "alice", Password: "p"}}
				}
				return req
			}
			var resp kmip.Response
			err := enc.Encode(mk(true))
			if err == nil {
				err = dec.Decode(&resp)
			}
			first := fmt.Sprintf("calls=%d auth=%v err=%v", atomic.LoadInt32(&calls), seen.Load(), err)
			if first != "calls=1 auth=A err=<nil>" {
				r.find(Finding{Kind: "violation", What: "a request with credentials accepted by the configured callback was not served with that callback's value", Input: key, Expect: "calls=1 auth=A err=<nil>", Actual: first})
			}
			// the reply has been read: the server is back in its read of the next request
			s.RequestAuthHandler = c.second
			want := c.want
			if !withCreds2 {
				want = "served auth=<nil>"
			}
			var resp2 kmip.Response
			err = enc.Encode(mk(withCreds2))
			if err == nil {
				err = dec.Decode(&resp2)
			}
			got := ""
			n := atomic.LoadInt32(&calls)
			switch {
			case err != nil && n == 1:
				got = "refused"
			case err != nil:
				got = fmt.Sprintf("handler ran (auth=%v) but no reply: %v", seen.Load(), err)
			case n == 2 && len(resp2.BatchItems) == 1 && resp2.BatchItems[0].ResultStatus == kmip.RESULT_STATUS_SUCCESS:
				got = fmt.Sprintf("served auth=%v", seen.Load())
			default:
				got = fmt.Sprintf("calls=%d reply items=%d", n, len(resp2.BatchItems))
			}
			if got != want {
				r.find(Finding{Kind: "violation", What: "after the request-authentication callback of a running server was replaced, a request on an already open connection was not judged by the callback now configured", Input: key, Expect: want, Actual: got})
			}
			cc.Close()
			ctx, cancel := context.WithTimeout(context.Background(), 5*time.Second)
			_ = s.Shutdown(ctx)
			cancel()
			<-ret
			r.Stats["reconfigure-scenarios"]++
		}
	}
}

// c09PerOperation: the credential gate does not depend on WHAT is asked: for every operation - Discover Versions with the
// built-in handler, Discover Versions with a registered handler, ordinary operations, an operation nobody handles, batches
// mixing them - a request whose credentials the callback rejects (or with no callback configured) reaches no handler and gets no
// response; the connection is closed.
func c09PerOperation(r *Result) {
	type batch struct {
		name string
		ops  []kmip.Enum
	}
	batches := []batch{
		{"Discover Versions only", []kmip.Enum{kmip.OPERATION_DISCOVER_VERSIONS}},
		{"two Discover Versions items", []kmip.Enum{kmip.OPERATION_DISCOVER_VERSIONS, kmip.OPERATION_DISCOVER_VERSIONS}},
		{"Get only", []kmip.Enum{kmip.OPERATION_GET}},
		{"Discover Versions and Get", []kmip.Enum{kmip.OPERATION_DISCOVER_VERSIONS, kmip.OPERATION_GET}},
		{"Query (no handler)", []kmip.Enum{kmip.OPERATION_QUERY}},
	}
	payload := func(op kmip.Enum) interface{} {
		switch op {
		case kmip.OPERATION_DISCOVER_VERSIONS:
			return kmip.DiscoverVersionsRequest{}
		case kmip.OPERATION_GET:
			return kmip.GetRequest{UniqueIdentifier: "k"}
		}
		return kmip.DestroyRequest{UniqueIdentifier: "k"}
	}
	// every optional header field the request may carry beside its credentials: none of them is a way around the gate
	type hvariant struct {
		name string
		set  func(h *kmip.RequestHeader)
	}
	variants := []hvariant{
		{"plain header", func(h *kmip.RequestHeader) {}},
		{"Asynchronous Indicator = true", func(h *kmip.RequestHeader) { h.AsynchronousIndicator = true }},
		{"Batch Count one more than the items", func(h *kmip.RequestHeader) { h.BatchCount++ }},
		{"Batch Count = 0", func(h *kmip.RequestHeader) { h.BatchCount = 0 }},
		{"Maximum Response Size = 1", func(h *kmip.RequestHeader) { h.MaxResponseSize = 1 }},
		{"Batch Order Option and Continue", func(h *kmip.RequestHeader) { h.BatchOrderOption = true; h.BatchErrorContinuationOption = 1 }},
		{"Attestation Capable, Time Stamp and correlation values", func(h *kmip.RequestHeader) {
			h.AttestationCapableIndicator = true
			h.TimeStamp = time.Unix(1500000000, 0)
			h.ClientCorrelationValue = "c"
			h.ServerCorrelationValue = "s"
		}},
		{"unsupported protocol version 9.9", func(h *kmip.RequestHeader) { h.Version = kmip.ProtocolVersion{Major: 9, Minor: 9} }},
	}
	for _, customDV := range []bool{false, true} {
		for _, withCallback := range []bool{true, false} {
			for vi, hv := range variants {
				for _, b := range batches {
					if vi > 0 && (customDV || len(b.ops) != 2 || b.ops[1] != kmip.OPERATION_GET) {
						continue // header variants: on the mixed batch, built-in Discover Versions
					}
					key := fmt.Sprintf("batch of %s with credentials the callback rejects (callback configured: %v, Discover Versions handler registered by the application: %v, %s)", b.name, withCallback, customDV, hv.name)
					crumb("C09 scenario: " + key)
					r.eval(key, true)
					var calls int32
					s := &kmip.Server{}
					if withCallback {
						s.RequestAuthHandler = func(sc *kmip.SessionContext, a *kmip.Authentication) (interface{}, error) {
							return nil, fmt.Errorf("unknown user")
						}
					}
					count := func(ctx *kmip.RequestContext, item *kmip.RequestBatchItem) (interface{}, error) {
						atomic.AddInt32(&calls, 1)
						return nil, nil
					}
					s.Handle(kmip.OPERATION_GET, count)
					if customDV {
						s.Handle(kmip.OPERATION_DISCOVER_VERSIONS, count)
					}
					sc, cc := rec.Pipe()
					rc := rec.NewConn(sc, 1)
					l := rec.NewListener()
					l.Push(rec.AcceptStep{Conn: rc})
					init := make(chan struct{})
					ret := make(chan error, 1)
					go func() { ret <- s.Serve(l, init) }()
					<-init
					_ = cc.SetDeadline(time.Now().Add(3 * time.Second))
					req := &kmip.Request{Header: kmip.RequestHeader{Version: kmip.ProtocolVersion{Major: 1, Minor: 4}, BatchCount: int32(len(b.ops)),
						Authentication: kmip.Authentication{CredentialType: kmip.CREDENTIAL_TYPE_USERNAME_AND_PASSWORD, CredentialValue: kmip.CredentialUsernamePassword{Username: "mallory", Password: "x"}}}}
					for i, op := range b.ops {
						req.BatchItems = append(req.BatchItems, kmip.RequestBatchItem{Operation: op, UniqueID: []byte{byte(i + 1)}, RequestPayload: payload(op)})
					}
					hv.set(&req.Header)
					var resp kmip.Response
					err := kmip.NewEncoder(cc).Encode(req)
					if err == nil {
						err = kmip.NewDecoder(cc).Decode(&resp)
					}
					closed := false
					select {
					case <-rc.Closed():
						closed = true
					case <-time.After(2 * time.Second):
					}
					obs := fmt.Sprintf("handler-calls=%d response=%v closed-by-server=%v", atomic.LoadInt32(&calls), err == nil, closed)
					if obs != "handler-calls=0 response=false closed-by-server=true" {
						r.find(Finding{Kind: "violation", What: "a request whose credentials were not accepted was not refused outright", Input: key, Expect: "handler-calls=0 response=false closed-by-server=true", Actual: obs})
					}
					cc.Close()
					ctx, cancel := context.WithTimeout(context.Background(), 5*time.Second)
					_ = s.Shutdown(ctx)
					cancel()
					<-ret
					r.Stats["per-operation-gate-scenarios"]++
				}
			}
		}
	}
}

// c09ResumedSession: the session-authentication callback decides for EVERY connection - also for one whose TLS handshake
// resumed an earlier session (a client with a session cache reconnecting). A first connection is accepted and served (the
// session ticket arrives with the response); the callback then changes its mind (the client was revoked); the same client
// reconnects, resuming: the callback must be asked again, its refusal must close the connection without a response, and no
// handler may run. With a callback that accepts again, the handler sees the value returned for THIS connection.
func c09ResumedSession(r *Result) {
	ca := tlsm.NewCA("c09-resume-ca")
	scfg := &tls.Config{Certificates: []tls.Certificate{tlsm.Leaf(ca, tlsm.LeafOpts{Host: "127.0.0.1"})}, ClientCAs: ca.Pool}
	kmip.DefaultServerTLSConfig(scfg)
	for _, second := range []string{"rejects", "accepts with another value"} {
		for _, maxVer := range []uint16{tls.VersionTLS12, tls.VersionTLS13} {
			key := fmt.Sprintf("TLS (max version %x) client with a session cache connects twice; SessionAuthHandler accepts the first connection and %s the second (resumed) one", maxVer, second)
			crumb("C09 " + key)
			r.eval(key, true)
			ln, err := tls.Listen("tcp", "127.0.0.1:0", scfg)
			if err != nil {
				r.find(Finding{Kind: "disagreement", What: "cannot listen", Input: err.Error()})
				return
			}
			var conns, calls int32
			var seen atomic.Value
			s := &kmip.Server{}
			s.SessionAuthHandler = func(c net.Conn) (interface{}, error) {
				n := atomic.AddInt32(&conns, 1)
				if n >= 2 && second == "rejects" {
					return nil, fmt.Errorf("client certificate revoked")
				}
				return fmt.Sprintf("connection-%d", n), nil
			}
			s.Handle(kmip.OPERATION_ACTIVATE, func(ctx *kmip.RequestContext, item *kmip.RequestBatchItem) (interface{}, error) {
				atomic.AddInt32(&calls, 1)
				seen.Store(fmt.Sprint(ctx.SessionAuth))
				return kmip.ActivateResponse{UniqueIdentifier: "x"}, nil
			})
			init := make(chan struct{})
			ret := make(chan error, 1)
			go func() { ret <- s.Serve(ln, init) }()
			<-init
			ccfg := &tls.Config{RootCAs: ca.Pool, Certificates: []tls.Certificate{tlsm.Leaf(ca, tlsm.LeafOpts{Host: "client", Client: true})},
				ClientSessionCache: tls.NewLRUClientSessionCache(4), MaxVersion: maxVer}
			kmip.DefaultClientTLSConfig(ccfg)
			obs := ""
			resumed := false
			for i := 1; i <= 2; i++ {
				cl := &kmip.Client{Endpoint: ln.Addr().String(), TLSConfig: ccfg, ReadTimeout: 3 * time.Second, WriteTimeout: 3 * time.Second}
				if err := cl.Connect(); err != nil {
					obs += fmt.Sprintf("conn%d: connect failed; ", i)
					continue
				}
				_, err := cl.Send(kmip.OPERATION_ACTIVATE, kmip.ActivateRequest{UniqueIdentifier: "a"})
				sa, _ := seen.Load().(string)
				obs += fmt.Sprintf("conn%d: answered=%v handler-calls=%d session-auth-seen=%s; ", i, err == nil, atomic.LoadInt32(&calls), sa)
				cl.Close()
				time.Sleep(20 * time.Millisecond)
			}
			_ = resumed
			ctx, cancel := context.WithTimeout(context.Background(), 5*time.Second)
			_ = s.Shutdown(ctx)
			cancel()
			<-ret
			want := "conn1: answered=true handler-calls=1 session-auth-seen=connection-1; conn2: answered=false handler-calls=1 session-auth-seen=connection-1; "
			if second != "rejects" {
				want = "conn1: answered=true handler-calls=1 session-auth-seen=connection-1; conn2: answered=true handler-calls=2 session-auth-seen=connection-2; "
			}
			r.Stats["resumed-session-scenarios"]++
			if obs != want {
				r.find(Finding{Kind: "violation", What: "the session-authentication callback did not decide for a connection that resumed an earlier TLS session (a handler ran / a response was sent although it refused, or the handler saw another connection's session-auth value)",
					Input: key, Expect: want, Actual: obs})
			}
		}
	}
}

// c09ContextMutation: what a handler is handed is its request's own context. A handler that writes into it - narrows
// SessionAuth for the rest of its batch, decorates SessionID, replaces RequestAuth - changes nothing for any LATER request: the
// next request on the connection (and a request-authentication callback consulted for it) sees the session ID and the
// session-auth value established for the connection, and its own request-auth value.
func c09ContextMutation(r *Result) {
	key := "a handler overwrites SessionAuth, SessionID and RequestAuth of the context it was given; then two more requests on the same connection (one with credentials) and one on another connection"
	crumb("C09 " + key)
	r.eval(key, true)
	var mu sync.Mutex
	var seen []string
	note := func(format string, a ...interface{}) { mu.Lock(); seen = append(seen, fmt.Sprintf(format, a...)); mu.Unlock() }
	s := &kmip.Server{}
	var nconn int32
	s.SessionAuthHandler = func(c net.Conn) (interface{}, error) { return fmt.Sprintf("admin-%d", atomic.AddInt32(&nconn, 1)), nil }
	s.RequestAuthHandler = func(sc *kmip.SessionContext, a *kmip.Authentication) (interface{}, error) {
		note("requestAuth sees sid=%s sa=%v", sc.SessionID, sc.SessionAuth)
		return "user", nil
	}
	s.Handle(kmip.OPERATION_ACTIVATE, func(ctx *kmip.RequestContext, item *kmip.RequestBatchItem) (interface{}, error) {
		note("activate sees sid=%s sa=%v ra=%v", ctx.SessionID, ctx.SessionAuth, ctx.RequestAuth)
		ctx.SessionAuth = "restricted"
		ctx.SessionID += "-decorated"
		ctx.RequestAuth = "forged"
		return kmip.ActivateResponse{UniqueIdentifier: "x"}, nil
	})
	s.Handle(kmip.OPERATION_GET, func(ctx *kmip.RequestContext, item *kmip.RequestBatchItem) (interface{}, error) {
		note("get sees sid=%s sa=%v ra=%v", ctx.SessionID, ctx.SessionAuth, ctx.RequestAuth)
		return kmip.GetResponse{ObjectType: kmip.OBJECT_TYPE_SYMMETRIC_KEY, UniqueIdentifier: "k"}, nil
	})
	l := rec.NewListener()
	sc1, cc1 := rec.Pipe()
	sc2, cc2 := rec.Pipe()
	l.Push(rec.AcceptStep{Conn: rec.NewConn(sc1, 1)})
	init := make(chan struct{})
	ret := make(chan error, 1)
	go func() { ret <- s.Serve(l, init) }()
	<-init
	exchange := func(c *rec.MemConn, creds bool, ops ...kmip.Enum) bool {
		_ = c.SetDeadline(time.Now().Add(3 * time.Second))
		req := kmip.Request{Header: kmip.RequestHeader{Version: kmip.ProtocolVersion{Major: 1, Minor: 4}, BatchCount: int32(len(ops))}}
		if creds {
			req.Header.Authentication = kmip.Authentication{CredentialType: kmip.CREDENTIAL_TYPE_USERNAME_AND_PASSWORD, CredentialValue: kmip.CredentialUsernamePassword{Username: "u", Password: "p"}}
		}
		for _, op := range ops {
			var p interface{} = kmip.ActivateRequest{UniqueIdentifier: "a"}
			if op == kmip.OPERATION_GET {
				p = kmip.GetRequest{UniqueIdentifier: "k"}
			}
			req.BatchItems = append(req.BatchItems, kmip.RequestBatchItem{Operation: op, RequestPayload: p})
		}
		if err := kmip.NewEncoder(c).Encode(&req); err != nil {
			return false
		}
		var resp kmip.Response
		return kmip.NewDecoder(c).Decode(&resp) == nil
	}
	ok := exchange(cc1, false, kmip.OPERATION_ACTIVATE)
	ok = exchange(cc1, false, kmip.OPERATION_GET) && ok
	ok = exchange(cc1, true, kmip.OPERATION_GET) && ok
	l.Push(rec.AcceptStep{Conn: rec.NewConn(sc2, 2)})
	ok = exchange(cc2, false, kmip.OPERATION_GET) && ok
	cc1.Close()
	cc2.Close()
	ctx, cancel := context.WithTimeout(context.Background(), 5*time.Second)
	_ = s.Shutdown(ctx)
	cancel()
	<-ret
	mu.Lock()
	got := strings.Join(seen, "; ")
	mu.Unlock()
	want := "activate sees sid=00000001 sa=admin-1 ra=<nil>; get sees sid=00000001 sa=admin-1 ra=<nil>; requestAuth sees sid=00000001 sa=admin-1; get sees sid=00000001 sa=admin-1 ra=user; get sees sid=00000002 sa=admin-2 ra=<nil>"
	r.Stats["context-mutation-scenarios"]++
	if !ok {
		r.find(Finding{Kind: "disagreement", What: "c09ContextMutation: an exchange failed (harness)", Input: key, Actual: got})
	} else if got != want {
		r.find(Finding{Kind: "violation", What: "a handler invocation (or the request-authentication callback) saw a session ID / session-auth / request-auth value that an EARLIER request's handler had written, not the one established for its own connection and request", Input: key, Expect: want, Actual: got})
	}
}
