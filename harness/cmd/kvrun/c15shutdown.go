package main

import (
	"context"
	"crypto/tls"
	"fmt"
	"strings"
	"time"

	kmip "github.com/smira/go-kmip"

	"kvharness/internal/rec"
	"kvharness/internal/tlsm"
)

// c15DuringShutdown: "a connection that keeps completing requests in time is never cut off because of its age" - nor because
// Shutdown has been called meanwhile: Shutdown never aborts a connection, it waits for it, and for as long as the connection
// lives its deadlines are armed afresh for every message. ReadTimeout = WriteTimeout = T; a peer completes an exchange
// every T/5 for 3 T, Shutdown is called after the first one. Every exchange is answered; Shutdown returns nil once the peer
// has left.
func c15DuringShutdown(r *Result) {
	const T = 500 * time.Millisecond
	for _, to := range []struct{ rt, wt time.Duration }{{T, T}, {T, 0}} {
		key := fmt.Sprintf("ReadTimeout %v, WriteTimeout %v: exchanges every %v for %v, Shutdown called after the first", to.rt, to.wt, T/5, 3*T)
		crumb("C15 " + key)
		r.eval(key, true)
		s := &kmip.Server{ReadTimeout: to.rt, WriteTimeout: to.wt}
		sc, cc := rec.Pipe()
		rc := rec.NewConn(sc, 1)
		l := rec.NewListener()
		l.Push(rec.AcceptStep{Conn: rc})
		init := make(chan struct{})
		ret := make(chan error, 1)
		go func() { ret <- s.Serve(l, init) }()
		<-init
		_ = cc.SetDeadline(time.Now().Add(10 * time.Second))
		enc, dec := kmip.NewEncoder(cc), kmip.NewDecoder(cc)
		exchange := func() error {
			req := kmip.Request{Header: kmip.RequestHeader{Version: kmip.ProtocolVersion{Major: 1, Minor: 4}, BatchCount: 1},
				BatchItems: []kmip.RequestBatchItem{{Operation: kmip.OPERATION_DISCOVER_VERSIONS, RequestPayload: kmip.DiscoverVersionsRequest{}}}}
			if err := enc.Encode(&req); err != nil {
				return err
			}
			var resp kmip.Response
			return dec.Decode(&resp)
		}
		obs := ""
		if err := exchange(); err != nil {
			obs = "first exchange failed: " + err.Error()
		}
		ctx, cancel := context.WithTimeout(context.Background(), 10*time.Second)
		sdc := make(chan error, 1)
		go func() { sdc <- s.Shutdown(ctx) }()
		t0 := time.Now()
		n := 0
		for obs == "" && time.Since(t0) < 3*T {
			time.Sleep(T / 5)
			if err := exchange(); err != nil {
				obs = fmt.Sprintf("exchange %d, %v after Shutdown was called, failed: %v", n+2, time.Since(t0).Round(10*time.Millisecond), err)
			}
			n++
		}
		if obs != "" {
			r.find(Finding{Kind: "violation", What: "a connection that completed every request in time was cut off after Shutdown had been called (its deadlines were no longer armed afresh)", Input: key, Expect: "every exchange answered until the peer leaves", Actual: obs})
		}
		cc.Close()
		select {
		case e := <-sdc:
			if e != nil {
				r.find(Finding{Kind: "violation", What: "Shutdown did not return nil after the peer had left", Input: key, Actual: e.Error()})
			}
		case <-time.After(6 * time.Second):
			r.find(Finding{Kind: "violation", What: "Shutdown did not return after the peer had left", Input: key})
		}
		cancel()
		select {
		case <-ret:
		case <-time.After(3 * time.Second):
		}
		r.Stats["exchanges-during-shutdown-scenarios"]++
	}
}

// c15HandshakeStall: "arms a fresh read deadline ... (and for the TLS handshake), so a peer that stalls ... is disconnected" - in
// the handshake too: a peer connects to a TLS-serving Server with ReadTimeout T and says nothing, or sends the first bytes of
// a record and stops. The server hangs up (closes the connection) between T/2 and 10 T after the peer connected; with
// ReadTimeout zero it does not (control: still connected after 3 T).
func c15HandshakeStall(r *Result) {
	const T = 200 * time.Millisecond
	ca := tlsm.NewCA("c15-hs-ca")
	scfg := &tls.Config{Certificates: []tls.Certificate{tlsm.Leaf(ca, tlsm.LeafOpts{Host: "kmip.test"})}, ClientCAs: ca.Pool}
	kmip.DefaultServerTLSConfig(scfg)
	for _, rt := range []time.Duration{T, 0} {
		for _, probe := range []string{"nothing", "the first six bytes of a record"} {
			key := fmt.Sprintf("TLS server with ReadTimeout %v (WriteTimeout %v): a peer connects, sends %s and stalls", rt, rt, probe)
			crumb("C15 " + key)
			r.eval(key, true)
			s := &kmip.Server{TLSConfig: scfg, ReadTimeout: rt, WriteTimeout: rt}
			sc, cc := rec.Pipe()
			rc := rec.NewConn(sc, 1)
			l := rec.NewListener()
			l.Push(rec.AcceptStep{Conn: tls.Server(rc, scfg)})
			init := make(chan struct{})
			ret := make(chan error, 1)
			go func() { ret <- s.Serve(l, init) }()
			<-init
			t0 := time.Now()
			if probe != "nothing" {
				_, _ = cc.Write([]byte{0x16, 0x03, 0x01, 0x02, 0x00, 0x01})
			}
			obs := ""
			limit := 10 * T
			if rt == 0 {
				limit = 3 * T
			}
			select {
			case <-rc.Closed():
				obs = fmt.Sprintf("closed after %v", time.Since(t0).Round(10*time.Millisecond))
				if rt != 0 && time.Since(t0) < T/2 {
					obs += " (too early)"
				}
			case <-time.After(limit):
				obs = "still connected"
			}
			switch {
			case rt != 0 && (obs == "still connected" || strings.HasSuffix(obs, "(too early)")):
				r.find(Finding{Kind: "violation", What: "a peer stalling in the TLS handshake was not disconnected when the read deadline armed for the handshake passed", Input: key, Expect: fmt.Sprintf("connection closed by the server between %v and %v", T/2, 10*T), Actual: obs})
			case rt == 0 && obs != "still connected":
				r.find(Finding{Kind: "violation", What: "with zero timeouts a peer idling in the TLS handshake was cut off", Input: key, Expect: "still connected after " + (3 * T).String(), Actual: obs})
			}
			cc.Close()
			ctx, cancel := context.WithTimeout(context.Background(), 5*time.Second)
			_ = s.Shutdown(ctx)
			cancel()
			select {
			case <-ret:
			case <-time.After(3 * time.Second):
			}
			r.Stats["handshake-stall-scenarios"]++
		}
	}
}
