package main

import (
	"context"
	"crypto/tls"
	"fmt"
	"strings"
	"time"

	kmip "github.com/smira/go-kmip"

	"kvharness/internal/drv"
	"kvharness/internal/rec"
	"kvharness/internal/tlsm"
)

// c15TLS: the deadline rules on a TLS connection (where the server also bounds the handshake): a Server with each
// combination of zero / non-zero ReadTimeout and WriteTimeout serves a properly authenticated TLS client over a recording
// connection.  Judged directly: no read deadline is ever armed when ReadTimeout is zero, no write deadline when
// WriteTimeout is zero (SetDeadline arms both), and a connection that completes each request within the non-zero timeouts
// is never cut off because of its age.
func c15TLS(r *Result, d *drv.Driver) {
	const T = 250 * time.Millisecond
	ca := tlsm.NewCA("c15-ca")
	serverCert := tlsm.Leaf(ca, tlsm.LeafOpts{Host: "kmip.test"})
	clientCert := tlsm.Leaf(ca, tlsm.LeafOpts{Host: "client.test", Client: true})
	for _, c := range []struct{ rt, wt time.Duration }{{0, 0}, {T, 0}, {0, T}, {T, T}, {3 * T, T}, {T, 3 * T}} {
		key := fmt.Sprintf("tls-deadlines ReadTimeout=%v WriteTimeout=%v", c.rt, c.wt)
		r.eval(key, true)
		cfg := &tls.Config{Certificates: []tls.Certificate{serverCert}, ClientCAs: ca.Pool}
		kmip.DefaultServerTLSConfig(cfg)
		s := &kmip.Server{TLSConfig: cfg, ReadTimeout: c.rt, WriteTimeout: c.wt}
		s.Handle(kmip.OPERATION_ACTIVATE, func(ctx *kmip.RequestContext, item *kmip.RequestBatchItem) (interface{}, error) {
			return kmip.ActivateResponse{UniqueIdentifier: "x"}, nil
		})
		sc, cc := rec.Pipe()
		rc := rec.NewConn(sc, 1)
		l := rec.NewListener()
		l.Push(rec.AcceptStep{Conn: tls.Server(rc, cfg)})
		init := make(chan struct{})
		ret := make(chan error, 1)
		go func() { ret <- s.Serve(l, init) }()
		<-init
		ccfg := &tls.Config{RootCAs: ca.Pool, ServerName: "kmip.test", Certificates: []tls.Certificate{clientCert}}
		tc := tls.Client(cc, ccfg)
		_ = cc.SetDeadline(time.Now().Add(5 * time.Second))
		answered, sent := 0, 0
		var firstErr error
		exchange := func() {
			sent++
			req := kmip.Request{Header: kmip.RequestHeader{Version: kmip.ProtocolVersion{Major: 1, Minor: 4}, BatchCount: 1},
				BatchItems: []kmip.RequestBatchItem{{Operation: kmip.OPERATION_ACTIVATE, RequestPayload: kmip.ActivateRequest{UniqueIdentifier: "a"}}}}
			if e := kmip.NewEncoder(tc).Encode(&req); e != nil {
				if firstErr == nil {
					firstErr = e
				}
				return
			}
			var resp kmip.Response
			if e := kmip.NewDecoder(tc).Decode(&resp); e != nil {
				if firstErr == nil {
					firstErr = e
				}
				return
			}
			answered++
		}
		if err := tc.Handshake(); err != nil {
			r.find(Finding{Kind: "disagreement", What: "TLS handshake of a valid client failed in the C15 TLS scenario", Input: key, Actual: err.Error()})
		} else {
			// each request is sent promptly after the previous answer, pauses stay well below the non-zero ReadTimeout,
			// and the whole conversation outlives every non-zero timeout
			pause := T / 3
			if c.rt == 0 {
				pause = T + T/2 // no read timeout: idling longer than the write timeout must be harmless
			}
			for i := 0; i < 5; i++ {
				exchange()
				time.Sleep(pause)
			}
		}
		tc.Close()
		cc.Close()
		select {
		case <-rc.Closed():
		case <-time.After(5 * time.Second):
			r.find(Finding{Kind: "violation", What: "server did not close the TLS connection after the client left", Input: key})
		}
		ctx, cancel := context.WithTimeout(context.Background(), 5*time.Second)
		_ = s.Shutdown(ctx)
		cancel()
		<-ret
		evs := rc.L.Events()
		// crypto/tls's own Close arms a write deadline for its close_notify alert: only what happens up to the server's
		// last wait for a request is the server's doing
		lastRead := -1
		for i, e := range evs {
			if e == "read" {
				lastRead = i
			}
		}
		evs = evs[:lastRead+1]
		count := func(name string) int {
			n := 0
			for _, e := range evs {
				if e == name {
					n++
				}
			}
			return n
		}
		obs := fmt.Sprintf("armRead=%d armWrite=%d armBoth=%d answered=%d/%d", count("armRead"), count("armWrite"), count("armBoth"), answered, sent)
		r.Stats["tls-deadline-scenarios"]++
		if len(r.Samples) < 6 {
			r.sample(map[string]string{"scenario": key, "observed": obs})
		}
		// the same connection in the Lean session model (tls=1): its sequence of deadline events, handshake included, must be the
		// real one (the model is what C15_handshake_armed / C15_read_rearmed / C15_zero_never_* are proved about)
		if answered == sent && d != nil {
			line := fmt.Sprintf("session rt=%s wt=%s tls=1 hs=1 sa=none ra=0 sid=1 reg=%d", b01(c.rt != 0), b01(c.wt != 0), uint32(kmip.OPERATION_ACTIVATE))
			for i := 0; i < sent; i++ {
				line += fmt.Sprintf(" | R v=1.4 corr=- bc=1 async=0 cred=0 auth=fail clock=0 w=1 items=%d:-:%d:s%d/1", uint32(kmip.OPERATION_ACTIVATE), i*100, i*100)
			}
			line += " | X"
			if rep, err := d.Ask(line); err == nil {
				var want, got []string
				for _, e := range strings.Split(rep, ";") {
					if e == "armRead" || e == "armWrite" {
						want = append(want, e)
					}
				}
				for _, e := range evs {
					if e == "armRead" || e == "armWrite" || e == "armBoth" {
						got = append(got, e)
					}
				}
				if strings.Join(want, ";") != strings.Join(got, ";") {
					r.find(Finding{Kind: "disagreement", What: "deadline events of a TLS session differ from the session model's (tls=1)", Input: line, Expect: strings.Join(want, ";"), Actual: strings.Join(got, ";")})
				}
			}
		}
		if c.rt == 0 && (count("armRead") > 0 || count("armBoth") > 0) {
			r.find(Finding{Kind: "violation", What: "a read deadline was set on a TLS connection although ReadTimeout is zero", Input: key, Expect: "armRead=0 armBoth=0", Actual: obs + " events=" + strings.Join(evs, ";")})
		}
		if c.wt == 0 && (count("armWrite") > 0 || count("armBoth") > 0) {
			r.find(Finding{Kind: "violation", What: "a write deadline was set on a TLS connection although WriteTimeout is zero", Input: key, Expect: "armWrite=0 armBoth=0", Actual: obs + " events=" + strings.Join(evs, ";")})
		}
		if answered != sent {
			r.find(Finding{Kind: "violation", What: "a TLS connection completing every request within the configured timeouts was cut off", Input: key, Expect: fmt.Sprintf("answered=%d/%d", sent, sent), Actual: fmt.Sprintf("%s first error: %v", obs, firstErr)})
		}
		if c.rt != 0 && count("armRead")+count("armBoth") < sent {
			r.find(Finding{Kind: "violation", What: "the read deadline was not re-armed for each message on a TLS connection", Input: key, Expect: fmt.Sprintf(">= %d", sent), Actual: obs})
		}
		if c.wt != 0 && count("armWrite")+count("armBoth") < answered {
			r.find(Finding{Kind: "violation", What: "the write deadline was not re-armed for each response on a TLS connection", Input: key, Expect: fmt.Sprintf(">= %d", answered), Actual: obs})
		}
	}
}
