package main

import (
	"context"
	"fmt"
	"reflect"
	"sync"
	"time"
	"unsafe"

	kmip "github.com/smira/go-kmip"

	"kvharness/internal/rec"
)

// c11ReadySignal: the channel Serve closes is the API's only "the server is ready" signal; a Shutdown called once it is closed
// is a Shutdown of a running server: listener closed, Serve returns nil. To make the moment between the signal and Serve's
// first locked section observable from outside, the harness holds the Server's mutex (reached through reflection: nothing an
// application could do, used only to PLACE Shutdown, not to judge it) while Serve starts: if the signal comes while the mutex is
// held, Shutdown is called right then; otherwise right after the signal. Either way: Shutdown nil, listener closed, Serve nil
// within a second.
func c11ReadySignal(r *Result) {
	for round := 0; round < 3; round++ {
		key := fmt.Sprintf("Shutdown called as soon as Serve has closed its ready channel (round %d)", round)
		r.eval(key, true)
		s := &kmip.Server{}
		f := reflect.ValueOf(s).Elem().FieldByName("mu")
		if !f.IsValid() || f.Type() != reflect.TypeOf(sync.Mutex{}) {
			r.Stats["ready-signal:mutex-not-reachable"]++
			return
		}
		mu := (*sync.Mutex)(unsafe.Pointer(f.UnsafeAddr()))
		l := rec.NewListener()
		init := make(chan struct{})
		ret := make(chan error, 1)
		mu.Lock()
		go func() { ret <- s.Serve(l, init) }()
		early := false
		select {
		case <-init:
			early = true // ready signalled before Serve ever took its lock
		case <-time.After(30 * time.Millisecond):
		}
		mu.Unlock()
		<-init
		ctx, cancel := context.WithTimeout(context.Background(), 3*time.Second)
		sdErr := s.Shutdown(ctx)
		cancel()
		obs := fmt.Sprintf("Shutdown %v", sdErr)
		select {
		case e := <-ret:
			obs += fmt.Sprintf(", Serve %v", e)
		case <-time.After(time.Second):
			obs += ", Serve still blocked in Accept 1 s later"
		}
		obs += fmt.Sprintf(", listener closed: %v", l.IsClosed())
		r.Stats[fmt.Sprintf("ready-signal:before-first-lock=%v", early)]++
		if obs != "Shutdown <nil>, Serve <nil>, listener closed: true" {
			r.find(Finding{Kind: "violation", What: "a Shutdown called after Serve had signalled readiness did not stop it: the listener stays open / Serve does not return nil", Input: key + fmt.Sprintf(" (ready signal came before Serve's first locked section: %v)", early),
				Expect: "Shutdown <nil>, Serve <nil>, listener closed: true", Actual: obs})
			if !l.IsClosed() {
				l.Close()
				select {
				case <-ret:
				case <-time.After(time.Second):
				}
			}
		}
	}
}
