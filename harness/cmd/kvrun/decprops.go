package main

import (
	"bytes"
	"encoding/binary"
	"fmt"
	"io"
	"math/rand"
	"reflect"
	"strings"
	"time"

	kmip "github.com/smira/go-kmip"

	"kvharness/internal/drv"
	"kvharness/internal/gen"
	"kvharness/internal/gentab"
	"kvharness/internal/mut"
	"kvharness/internal/render"
)

type decInput struct {
	typ    string
	data   []byte
	origin string // valid | mut:<kind> | random
	value  string // rendered source value (valid inputs only)
	top    interface{}
}

func allDecodeTypes() map[string]reflect.Type {
	m := gen.StructTypes()
	return m
}

// buildDecInputs: valid encodings of well-formed values + `mutPer` mutations of each + random bytes
func buildDecInputs(g *gen.G, nValid, mutPer int, kinds []string) []decInput {
	types := allDecodeTypes()
	names := typeNames(types)
	var valid []decInput
	for len(valid) < nValid {
		name := names[g.R.Intn(len(names))]
		if g.R.Intn(10) < 6 {
			name = []string{"Request", "Response"}[g.R.Intn(2)]
		}
		p := g.NewStruct(types[name])
		out, written, _ := realEncode(p.Interface())
		if !strings.HasPrefix(out, "ok") {
			continue
		}
		valid = append(valid, decInput{typ: name, data: append([]byte(nil), written...), origin: "valid", value: render.Struct(p.Interface()), top: p.Interface()})
	}
	inputs := append([]decInput(nil), valid...)
	for i, v := range valid {
		for k := 0; k < mutPer; k++ {
			kind := kinds[g.R.Intn(len(kinds))]
			other := valid[g.R.Intn(len(valid))].data
			m, ok := mut.Mutate(g.R, kind, v.data, other)
			if !ok {
				continue
			}
			// sometimes stack a second mutation
			if g.R.Intn(5) == 0 {
				if m2, ok := mut.Mutate(g.R, kinds[g.R.Intn(len(kinds))], m, other); ok {
					m = m2
					kind += "+"
				}
			}
			inputs = append(inputs, decInput{typ: v.typ, data: m, origin: "mut:" + kind})
		}
		_ = i
	}
	// big well-formed messages (a value or a run of items beyond 4 KiB / 8 KiB): valid inputs with their values known
	for i, c := range bigCases() {
		if i%3 == 1 {
			continue
		}
		out, written, _ := realEncode(c.top)
		if strings.HasPrefix(out, "ok") {
			inputs = append(inputs, decInput{typ: c.typ, data: append([]byte(nil), written...), origin: "valid", value: render.Struct(c.top), top: c.top})
		}
	}
	return append(append(append(append(inputs, skipFamily()...), tailFamily()...), enumFamily()...), cutFamily()...)
}

// cutFamily: every structure of a few well-formed messages ended early - its children from the j-th on removed, for every j,
// with the lengths of the structure and of everything around it corrected, so that the result is a perfectly nested TTLV tree in
// which only trailing items (usually required ones) are missing; and the same structures with a declared length of 0. A
// decoder that stops looking once a structure's bytes are used up accepts these; random deletion rarely hits the tail exactly.
func cutFamily() []decInput {
	var out []decInput
	for _, in := range enumFamily() {
		if in.origin != "enum-valid" {
			continue
		}
		for _, b := range cutTails(in.data) {
			out = append(out, decInput{typ: in.typ, data: b, origin: "cut-tail"})
		}
	}
	return out
}

// cutTails: every structure of a TTLV message ended early at every child boundary, enclosing lengths corrected
func cutTails(data []byte) [][]byte {
	var out [][]byte
	for _, st := range mut.All(mut.Parse(data)) {
		if st.Typ != 1 {
			continue
		}
		for j := range st.Kids {
			from, to := st.Kids[j].Off, st.Off+8+int(st.Len)
			b := append(append([]byte(nil), data[:from]...), data[to:]...)
			for p := st; p != nil; p = p.Parent {
				l := binary.BigEndian.Uint32(b[p.Off+4:])
				binary.BigEndian.PutUint32(b[p.Off+4:], l-uint32(to-from))
			}
			out = append(out, b)
		}
	}
	return out
}

// enumFamily: every Enumeration and Integer item of a few well-formed messages set, one at a time, to EVERY value 0..0x60 and to
// the boundary values of 32-bit arithmetic. Random byte mutation essentially never produces one particular small number in one
// particular item; this family produces all of them. (Operation, Object Type, Credential Type and the attribute names select
// what the decoder builds next, so each of them is a table lookup that has to be total.)
func enumFamily() []decInput {
	var out []decInput
	ver := kmip.ProtocolVersion{Major: 1, Minor: 4}
	bases := []struct {
		typ string
		val interface{}
	}{
		{"Request", &kmip.Request{Header: kmip.RequestHeader{Version: ver, BatchCount: 1, Authentication: kmip.Authentication{CredentialType: kmip.CREDENTIAL_TYPE_USERNAME_AND_PASSWORD, CredentialValue: kmip.CredentialUsernamePassword{Username: "u", Password: "p"}}},
			BatchItems: []kmip.RequestBatchItem{{Operation: kmip.OPERATION_GET, RequestPayload: kmip.GetRequest{UniqueIdentifier: "k"}}}}},
		{"Request", &kmip.Request{Header: kmip.RequestHeader{Version: ver, BatchCount: 1},
			BatchItems: []kmip.RequestBatchItem{{Operation: kmip.OPERATION_CREATE, RequestPayload: kmip.CreateRequest{ObjectType: kmip.OBJECT_TYPE_SYMMETRIC_KEY,
				TemplateAttribute: kmip.TemplateAttribute{Attributes: kmip.Attributes{
					{Name: kmip.ATTRIBUTE_NAME_CRYPTOGRAPHIC_ALGORITHM, Value: kmip.CRYPTO_AES},
					{Name: kmip.ATTRIBUTE_NAME_CRYPTOGRAPHIC_LENGTH, Value: int32(128)}}}}}}}},
		{"Response", &kmip.Response{Header: kmip.ResponseHeader{Version: ver, TimeStamp: time.Unix(1000000000, 0), BatchCount: 1},
			BatchItems: []kmip.ResponseBatchItem{{Operation: kmip.OPERATION_GET, ResultStatus: kmip.RESULT_STATUS_SUCCESS, ResponsePayload: kmip.GetResponse{ObjectType: kmip.OBJECT_TYPE_SYMMETRIC_KEY, UniqueIdentifier: "k",
				SymmetricKey: kmip.SymmetricKey{KeyBlock: kmip.KeyBlock{FormatType: kmip.KEY_FORMAT_RAW, Value: kmip.KeyValue{KeyMaterial: []byte{1, 2, 3}}, CryptographicAlgorithm: kmip.CRYPTO_AES, CryptographicLength: 24}}}}}}},
		{"Response", &kmip.Response{Header: kmip.ResponseHeader{Version: ver, TimeStamp: time.Unix(1000000000, 0), BatchCount: 1},
			BatchItems: []kmip.ResponseBatchItem{{Operation: kmip.OPERATION_DESTROY, ResultStatus: kmip.RESULT_STATUS_OPERATION_FAILED, ResultReason: kmip.RESULT_REASON_ITEM_NOT_FOUND, ResultMessage: "no"}}}},
	}
	var values []uint32
	for v := uint32(0); v <= 0x60; v++ {
		values = append(values, v)
	}
	values = append(values, 0x7f, 0x80, 0xff, 0x100, 0xffff, 0x10000, 0x7fffffff, 0x80000000, 0x80000001, 0xfffffffe, 0xffffffff)
	for _, b := range bases {
		var eb bytes.Buffer
		if err := kmip.NewEncoder(&eb).Encode(b.val); err != nil {
			continue
		}
		data := eb.Bytes()
		out = append(out, decInput{typ: b.typ, data: data, origin: "enum-valid"})
		for _, n := range mut.All(mut.Parse(data)) {
			if (n.Typ != 5 && n.Typ != 2) || n.Len != 4 {
				continue
			}
			for _, v := range values {
				m := append([]byte(nil), data...)
				binary.BigEndian.PutUint32(m[n.Off+8:], v)
				out = append(out, decInput{typ: b.typ, data: m, origin: "enum-sweep"})
			}
		}
	}
	return out
}

// skipFamily: items that only a field annotated `skip` can claim never come out of Encode, so they are built by hand: a third
// child of a Message Extension (its Vendor Extension), of any type, with its length exact, overstated (by 8, to 17 / 24 /
// 2^31 / 2^32-7 / 2^32-1), with the enclosing lengths repaired or not, and with the input cut inside it
func skipFamily() []decInput {
	var out []decInput
	bases := []struct {
		typ string
		val interface{}
	}{
		{"Request", &kmip.Request{Header: kmip.RequestHeader{Version: kmip.ProtocolVersion{Major: 1, Minor: 4}, BatchCount: 1},
			BatchItems: []kmip.RequestBatchItem{{Operation: kmip.OPERATION_GET, RequestPayload: kmip.GetRequest{UniqueIdentifier: "id"},
				MessageExtension: kmip.MessageExtension{VendorIdentification: "acme", CriticalityIndicator: true}}}}},
		{"MessageExtension", &kmip.MessageExtension{VendorIdentification: "acme", CriticalityIndicator: true}},
	}
	for _, b := range bases {
		var eb bytes.Buffer
		if err := kmip.NewEncoder(&eb).Encode(b.val); err != nil {
			continue
		}
		data := eb.Bytes()
		var ext *mut.Node
		for _, n := range mut.All(mut.Parse(data)) {
			if n.Tag == 0x420051 {
				ext = n
			}
		}
		if ext == nil {
			continue
		}
		for _, typ := range []byte{1, 2, 7, 8, 0x0b} {
			for _, body := range [][]byte{{}, {1, 2, 3, 4}, {1, 2, 3, 4, 5, 6, 7, 8, 9, 10, 11, 12, 13, 14, 15, 16}} {
				pad := (8 - len(body)%8) % 8
				for _, decl := range []uint32{uint32(len(body)), uint32(len(body)) + 8, 17, 24, 1 << 31, 1<<32 - 7, 1<<32 - 1} {
					item := append([]byte{0x42, 0x00, 0x7d, typ, byte(decl >> 24), byte(decl >> 16), byte(decl >> 8), byte(decl)}, append(append([]byte(nil), body...), make([]byte, pad)...)...)
					for _, repair := range []bool{true, false} {
						m := append(append(append([]byte(nil), data[:ext.End]...), item...), data[ext.End:]...)
						if repair {
							for p := ext; p != nil; p = p.Parent {
								l := binary.BigEndian.Uint32(m[p.Off+4:])
								binary.BigEndian.PutUint32(m[p.Off+4:], l+uint32(len(item)))
							}
						}
						out = append(out, decInput{typ: b.typ, data: m, origin: "skip-item"})
						if cut := ext.End + 8 + len(body)/2; cut < len(m) {
							out = append(out, decInput{typ: b.typ, data: m[:cut], origin: "skip-item-cut"})
						}
					}
				}
			}
		}
	}
	return out
}

// tailFamily: messages whose LAST item is a text / byte string that needs no padding (8..64 bytes), cut at every offset from the
// start of that item to one byte before the end: nothing follows the value, so only the reader of the value itself can notice
func tailFamily() []decInput {
	var out []decInput
	uid := strings.Repeat("0123456789abcdef", 4)
	var bases []struct {
		typ string
		val interface{}
	}
	for _, l := range []int{8, 16, 24, 32, 40, 64} {
		bases = append(bases, struct {
			typ string
			val interface{}
		}{"Request", &kmip.Request{Header: kmip.RequestHeader{Version: kmip.ProtocolVersion{Major: 1, Minor: 4}, BatchCount: 1},
			BatchItems: []kmip.RequestBatchItem{{Operation: kmip.OPERATION_DESTROY, RequestPayload: kmip.DestroyRequest{UniqueIdentifier: uid[:l]}}}}})
		bases = append(bases, struct {
			typ string
			val interface{}
		}{"Response", &kmip.Response{Header: kmip.ResponseHeader{Version: kmip.ProtocolVersion{Major: 1, Minor: 4}, TimeStamp: time.Unix(1000000000, 0), BatchCount: 1},
			BatchItems: []kmip.ResponseBatchItem{{Operation: kmip.OPERATION_DECRYPT, ResponsePayload: kmip.DecryptResponse{UniqueIdentifier: "k", Data: []byte(uid[:l])}}}}})
	}
	for _, b := range bases {
		var eb bytes.Buffer
		if err := kmip.NewEncoder(&eb).Encode(b.val); err != nil {
			continue
		}
		data := eb.Bytes()
		nodes := mut.All(mut.Parse(data))
		last := nodes[len(nodes)-1]
		out = append(out, decInput{typ: b.typ, data: data, origin: "tail-valid"})
		for cut := last.Off; cut < len(data); cut++ {
			out = append(out, decInput{typ: b.typ, data: data[:cut], origin: "tail-cut"})
		}
	}
	return out
}

var deliveryModes = []string{"mem", "onebyte", "chunks", "dataeof", "dataeof-full"}

func pickDelivery(r *rand.Rand) (mode string, fin error, finName string, scanner bool) {
	mode = deliveryModes[r.Intn(len(deliveryModes))]
	fin, finName = io.EOF, "eof"
	if r.Intn(4) == 0 {
		fin, finName = errInjected, "ioerr"
	}
	scanner = r.Intn(2) == 0
	return
}

// decodeCorrespondence runs every input through the real decoder (unbuffered, counting) and the model, plus one
// random delivery discipline, records disagreements, and hands each outcome to `oracle`.
func decodeCorrespondence(r *Result, d *drv.Driver, g *gen.G, inputs []decInput,
	oracle func(in decInput, o decOut, model string)) {
	types := allDecodeTypes()
	var lines []string
	type extra struct {
		mode, finName string
		scanner       bool
		o             decOut
	}
	outs := make([]decOut, len(inputs))
	extras := make([]extra, len(inputs))
	for i, in := range inputs {
		t := types[in.typ]
		outs[i] = realDecode(t, in.data, "mem", io.EOF, true, g.R)
		lines = append(lines, fmt.Sprintf("dec %s eof %s", in.typ, hx(in.data)))
		mode, fin, finName, scanner := pickDelivery(g.R)
		extras[i] = extra{mode, finName, scanner, realDecode(t, in.data, mode, fin, scanner, g.R)}
		lines = append(lines, fmt.Sprintf("dec %s %s %s", in.typ, finName, hx(in.data)))
		if outs[i].class == "timeout" || extras[i].o.class == "timeout" {
			// a Decode that does not return keeps its goroutine spinning: report it and stop giving the code more input
			r.find(Finding{Kind: "violation", What: "Decode did not return (looping)", Input: map[string]string{"type": in.typ, "bytes": hx(in.data), "delivery": mode + "/" + finName, "origin": in.origin}, Expect: "ok|eof|err", Actual: "still running after 5 s"})
			r.Notes = append(r.Notes, "run cut short after a Decode call that did not return")
			inputs = inputs[:i+1]
			break
		}
	}
	replies, err := d.AskAll(lines)
	if err != nil {
		r.find(Finding{Kind: "disagreement", What: "driver failure", Input: err.Error()})
		return
	}
	for i, in := range inputs {
		o := outs[i]
		model := replies[2*i]
		key := in.typ + ":" + hx(in.data)
		r.eval(key, len(in.data) > 8)
		r.Stats["origin:"+strings.SplitN(in.origin, "+", 2)[0]]++
		r.Stats["real:"+o.class]++
		r.Stats["real:"+o.class+":"+strings.SplitN(in.origin, ":", 2)[0]]++
		if i%977 == 0 {
			r.sample(map[string]string{"type": in.typ, "origin": in.origin, "bytes": hx(in.data), "real": o.line(true)})
		}
		if o.line(true) != model {
			r.find(Finding{Kind: "disagreement", What: "decode model differs from real Decode (" + in.origin + ")",
				Input: map[string]string{"op": "dec", "type": in.typ, "fin": "eof", "bytes": hx(in.data)}, Expect: model, Actual: o.line(true)})
		}
		e := extras[i]
		model2 := replies[2*i+1]
		r.Stats["delivery:"+e.mode+fmt.Sprintf(":scanner=%v:%s", e.scanner, e.finName)]++
		r.Evaluations++
		got := e.o.line(false)
		if got != dropN(model2) {
			r.find(Finding{Kind: "disagreement", What: "decode model differs from real Decode under delivery " + e.mode + "/" + e.finName,
				Input: map[string]interface{}{"op": "dec", "type": in.typ, "fin": e.finName, "bytes": hx(in.data), "mode": e.mode, "scanner": e.scanner}, Expect: dropN(model2), Actual: got})
		}
		if oracle != nil {
			oracle(in, o, model)
			oracle(in, e.o, model2)
		}
	}
}

// ---- C03: Decode is total and safe on arbitrary bytes ---------------------------------------------------

func init() { props["C03"] = runC03 }

func runC03(r *Result, d *drv.Driver, tier string, seed int64, replay string) {
	nValid, mutPer, rounds := 250, 14, 1
	if tier == "thorough" {
		nValid, mutPer, rounds = 1500, 40, 4
	}
	r.Rule = "valid encodings of well-formed values of all struct types (Request/Response weighted); every mutation kind of internal/mut " +
		"(tag/type/length at boundary values incl. 2^31, 2^32-1, truncation, item deletion/duplication/reordering/splicing, booleans, padding, bit flips, random bytes); " +
		"each input decoded unbuffered from memory (exact consumption counted) and under one random delivery discipline (one byte at a time, random chunks with zero-length reads, data-with-EOF, injected I/O error; buffered or io.ByteScanner). " +
		"distinct = distinct (type, bytes); non-trivial = longer than a header"
	c03PersistentFaults(r)
	for round := 0; round < rounds; round++ {
		g := gen.New(seed*7919 + int64(round))
		g.WF = true
		g.Big = round%2 == 1
		inputs := buildDecInputs(g, nValid, mutPer, mut.Kinds)
		// truncation at every offset of a few messages
		for i := 0; i < 6 && i < len(inputs); i++ {
			base := inputs[i]
			for k := 0; k < len(base.data) && k < 400; k++ {
				inputs = append(inputs, decInput{typ: base.typ, data: base.data[:k], origin: "mut:truncate-every"})
			}
		}
		// every declared length 0..len+9 of the outermost item (and of its first child) of a few messages, all bytes kept
		for i := 0; i < 6 && i < nValid; i++ {
			base := inputs[i]
			if len(base.data) < 16 || len(base.data) > 700 {
				continue
			}
			for L := 0; L <= len(base.data)+1; L++ {
				b := append([]byte(nil), base.data...)
				b[4], b[5], b[6], b[7] = byte(L>>24), byte(L>>16), byte(L>>8), byte(L)
				inputs = append(inputs, decInput{typ: base.typ, data: b, origin: "mut:outer-length-every"})
				if L <= len(base.data)-16 {
					c := append([]byte(nil), base.data...)
					c[12], c[13], c[14], c[15] = byte(L>>24), byte(L>>16), byte(L>>8), byte(L)
					inputs = append(inputs, decInput{typ: base.typ, data: c, origin: "mut:child-length-every"})
				}
			}
		}
		var accepted []decInput
		decodeCorrespondence(r, d, g, inputs, func(in decInput, o decOut, model string) {
			if o.class == "ok" && in.origin != "valid" && len(accepted) < 20000 {
				accepted = append(accepted, in)
			}
			switch o.class {
			case "panic":
				r.find(Finding{Kind: "violation", What: "Decode panicked", Input: map[string]string{"type": in.typ, "bytes": hx(in.data)}, Expect: "ok|eof|err", Actual: "panic: " + o.perr})
			case "timeout":
				r.find(Finding{Kind: "violation", What: "Decode did not return (looping)", Input: map[string]string{"type": in.typ, "bytes": hx(in.data)}, Expect: "ok|eof|err", Actual: "timeout"})
			}
			limit := len(in.data)
			if len(in.data) >= 8 && declaredEnd(in.data) < limit {
				limit = declaredEnd(in.data)
			}
			if o.scanner && o.pulled > limit {
				r.find(Finding{Kind: "violation", What: "Decode consumed bytes beyond the outermost item's declared end", Input: map[string]string{"type": in.typ, "bytes": hx(in.data)}, Expect: fmt.Sprintf("<= %d", limit), Actual: fmt.Sprint(o.pulled)})
			}
		})
		// "nil with a populated value": whatever Decode accepts (returns nil for) among the mutated inputs must denote a value of
		// the target type - every required item present - by the independent reader of the schema (`spec`, Lean)
		var sl []string
		for _, in := range accepted {
			sl = append(sl, fmt.Sprintf("spec %s %s", in.typ, hx(in.data)))
		}
		if reps, err := d.AskAll(sl); err == nil {
			for i, in := range accepted {
				r.Stats["accepted-mutants-judged"]++
				if !strings.HasPrefix(reps[i], "ok ") {
					r.Stats["accepted-mutants-rejected-by-spec"]++
					r.find(Finding{Kind: "violation", What: "Decode returned nil for bytes that do not denote a value of the target type (required items missing or out of place: nothing populated for them)",
						Input: map[string]string{"op": "spec", "type": in.typ, "bytes": hx(in.data), "origin": in.origin}, Expect: reps[i], Actual: "ok"})
				}
			}
		} else {
			r.find(Finding{Kind: "disagreement", What: "driver failure while judging accepted inputs", Input: err.Error()})
		}
		r.mergeStats("gen:", map[string]int{"dyn:ptr": g.Stats["dyn:ptr"], "dyn:val": g.Stats["dyn:val"], "dyn:prim": g.Stats["dyn:prim"]})
	}
}

// ---- C04: Decode accepts exactly the well-formed encodings and reports what they denote -----------------

func init() { props["C04"] = runC04 }

func runC04(r *Result, d *drv.Driver, tier string, seed int64, replay string) {
	nValid, mutPer, rounds := 250, 14, 1
	if tier == "thorough" {
		nValid, mutPer, rounds = 1500, 40, 4
	}
	r.Rule = "the mutated corpus of C03 (valid messages, tree-level and byte-level mutations, random bytes) plus valid NON-canonical encodings " +
		"(optional zero fields spelled out, non-zero padding bytes) produced by an independent serializer; every input is judged by the independent reader/schema matcher " +
		"`specDecode` (Lean) and compared with what the real Decode accepted and returned (accept/reject, value, bytes consumed). distinct = distinct (type, bytes); non-trivial = longer than a header"
	types := allDecodeTypes()
	for round := 0; round < rounds; round++ {
		g := gen.New(seed*104729 + int64(round))
		g.WF = true
		g.Big = round%2 == 1
		inputs := buildDecInputs(g, nValid, mutPer, mut.Kinds)
		// valid non-canonical encodings
		nv := 0
		for _, in := range inputs[:nValid] {
			if in.origin != "valid" {
				continue
			}
			for _, o := range []altOpts{{spellZeros: true}, {padByte: 0xAA}, {spellZeros: true, padByte: 0x01}} {
				b, ok := altEncode(in.top, o)
				if !ok {
					continue
				}
				inputs = append(inputs, decInput{typ: in.typ, data: b, origin: fmt.Sprintf("noncanon:zeros=%v,pad=%02x", o.spellZeros, o.padByte), value: in.value, top: in.top})
				nv++
			}
		}
		// for a few messages: every truncation
		for i := 0; i < 4 && i < nValid; i++ {
			base := inputs[i]
			for k := 0; k < len(base.data) && k < 300; k++ {
				inputs = append(inputs, decInput{typ: base.typ, data: base.data[:k], origin: "mut:truncate-every"})
			}
		}
		var lines []string
		outs := make([]decOut, len(inputs))
		for i, in := range inputs {
			outs[i] = realDecode(types[in.typ], in.data, "mem", io.EOF, true, g.R)
			lines = append(lines, fmt.Sprintf("spec %s %s", in.typ, hx(in.data)))
			lines = append(lines, fmt.Sprintf("dec %s eof %s", in.typ, hx(in.data)))
		}
		replies, err := d.AskAll(lines)
		if err != nil {
			r.find(Finding{Kind: "disagreement", What: "driver failure", Input: err.Error()})
			return
		}
		for i, in := range inputs {
			o := outs[i]
			spec, model := replies[2*i], replies[2*i+1]
			r.eval(in.typ+":"+hx(in.data), len(in.data) > 8)
			r.Stats["origin:"+strings.SplitN(strings.SplitN(in.origin, "+", 2)[0], ",", 2)[0]]++
			r.Stats["real:"+o.class]++
			if i%1531 == 0 {
				r.sample(map[string]string{"type": in.typ, "origin": in.origin, "bytes": hx(in.data), "real": o.line(true), "spec": spec})
			}
			if model != o.line(true) {
				r.find(Finding{Kind: "disagreement", What: "decode model differs from real Decode (" + in.origin + ")",
					Input: map[string]string{"op": "dec", "type": in.typ, "fin": "eof", "bytes": hx(in.data)}, Expect: model, Actual: o.line(true)})
			}
			realAcc := o.class == "ok"
			specAcc := strings.HasPrefix(spec, "ok ")
			switch {
			case o.class == "panic" || o.class == "timeout":
				r.find(Finding{Kind: "violation", What: "Decode " + o.class, Input: map[string]string{"type": in.typ, "bytes": hx(in.data)}, Actual: o.perr})
			case realAcc && !specAcc:
				r.find(Finding{Kind: "violation", What: "Decode accepted input that is not a well-formed encoding (" + strings.SplitN(in.origin, "+", 2)[0] + ")",
					Input: map[string]string{"op": "spec", "type": in.typ, "bytes": hx(in.data)}, Expect: spec, Actual: o.line(true)})
			case !realAcc && specAcc:
				r.find(Finding{Kind: "violation", What: "Decode rejected a well-formed encoding (" + strings.SplitN(in.origin, ":", 2)[0] + ")",
					Input: map[string]string{"op": "spec", "type": in.typ, "bytes": hx(in.data)}, Expect: spec, Actual: o.line(true)})
			case realAcc && spec != o.line(true):
				r.find(Finding{Kind: "violation", What: "Decode returned a value or length different from what the bytes denote",
					Input: map[string]string{"op": "spec", "type": in.typ, "bytes": hx(in.data)}, Expect: spec, Actual: o.line(true)})
			}
			if strings.HasPrefix(in.origin, "noncanon") || in.origin == "valid" {
				want := "ok " + normTokens(in.value)
				if got := o.line(false); got != want {
					r.find(Finding{Kind: "violation", What: "a valid encoding (" + strings.SplitN(in.origin, ":", 2)[0] + ") was not accepted with the value it denotes",
						Input: map[string]string{"type": in.typ, "bytes": hx(in.data), "value": in.value}, Expect: want, Actual: got})
				}
			}
		}
		r.Stats["noncanonical"] += nv
	}
}

// ---- C01: round trip ----------------------------------------------------------------------------------

func init() { props["C01"] = runC01 }

func runC01(r *Result, d *drv.Driver, tier string, seed int64, replay string) {
	defer c01PayloadTypes(r)
	defer c01EmptySequences(r)
	n, rounds := 5000, 1
	if tier == "thorough" {
		n, rounds = 40000, 6
	}
	r.Rule = "well-formed values of all 58 struct types (Request/Response weighted, every dispatch entry, boundary primitives, nil/empty/long sequences, pointer and value payloads): " +
		"real Decode(real Encode(v)) must render equal to v up to the documented normalisations, re-Encode of the decoded value must reproduce the bytes, " +
		"and the model's encode/decode must agree with the real ones on the same values. distinct = distinct rendered value; non-trivial = more than a bare header"
	types := gen.StructTypes()
	for round := 0; round < rounds; round++ {
		g := gen.New(seed*15485863 + int64(round))
		g.WF = true
		g.Big = round%3 == 2
		cs := genEncCases(g, n, types)
		var lines []string
		type rt struct {
			enc, dec, reenc string
			ok              bool
		}
		rts := make([]rt, len(cs))
		srcs := make([]string, len(cs))
		for i, c := range cs {
			// the value as it is handed to Encode (rendered BEFORE the call: an Encode that writes into its argument must not
			// get to define what "v" was)
			srcs[i] = render.Struct(c.val.Interface())
			enc, written, _ := realEncode(c.top)
			rts[i].enc = enc
			lines = append(lines, "enctop "+c.line)
			if !strings.HasPrefix(enc, "ok ") {
				lines = append(lines, "enctop n")
				continue
			}
			data := append([]byte(nil), written...)
			o := realDecode(types[c.typ], data, "mem", io.EOF, true, g.R)
			rts[i].dec = o.line(true)
			if o.class == "ok" {
				re, _, _ := realEncode(o.target.Interface())
				rts[i].reenc = re
				rts[i].ok = true
				// "bytes written by Encode, when handed to Decode" - through whatever reader: one byte at a time, in random pieces
				// with empty reads in between; the value decoded is the same
				for _, mode := range []string{"onebyte", "chunks"} {
					if i%3 != 0 && mode == "chunks" {
						continue
					}
					of := realDecode(types[c.typ], data, mode, io.EOF, false, g.R)
					r.Stats["roundtrip-through-fragmenting-reader"]++
					if of.class != "ok" || of.value != o.value {
						r.find(Finding{Kind: "violation", What: "Decode(Encode(v)) differs from v when the bytes reach Decode through a reader that delivers them " + map[string]string{"onebyte": "one at a time", "chunks": "in random pieces"}[mode] + " (type " + c.typ + ")",
							Input: map[string]string{"type": c.typ, "value": srcs[i], "bytes": hx(data)}, Expect: o.value, Actual: of.class + " " + of.value})
					}
				}
			}
			lines = append(lines, fmt.Sprintf("dec %s eof %s", c.typ, hx(data)))
		}
		replies, err := d.AskAll(lines)
		if err != nil {
			r.find(Finding{Kind: "disagreement", What: "driver failure", Input: err.Error()})
			return
		}
		for i, c := range cs {
			x := rts[i]
			r.eval(c.line, len(x.enc) > 3+16)
			if i < 2 && round == 0 {
				r.sample(map[string]string{"type": c.typ, "value": c.line, "bytes": x.enc, "decoded": x.dec})
			}
			if replies[2*i] != x.enc {
				r.find(Finding{Kind: "disagreement", What: "encode model differs from real Encode on type " + c.typ, Input: map[string]string{"op": "enctop", "value": c.line}, Expect: replies[2*i], Actual: x.enc})
			}
			if !strings.HasPrefix(x.enc, "ok ") {
				// a well-formed value must encode
				r.Stats["wf-value-not-encodable"]++
				r.find(Finding{Kind: "violation", What: "a well-formed value of type " + c.typ + " could not be encoded", Input: map[string]string{"value": c.line}, Actual: x.enc})
				continue
			}
			if replies[2*i+1] != x.dec {
				r.find(Finding{Kind: "disagreement", What: "decode model differs from real Decode on a valid encoding of " + c.typ, Input: map[string]string{"op": "dec", "type": c.typ, "bytes": x.enc[3:]}, Expect: replies[2*i+1], Actual: x.dec})
			}
			src := srcs[i]
			want := fmt.Sprintf("ok %d %s", len(x.enc[3:])/2, normTokens(src))
			if x.enc == "ok -" {
				want = "ok 0 " + normTokens(src)
			}
			if x.dec != want {
				r.find(Finding{Kind: "violation", What: "Decode(Encode(v)) differs from v (type " + c.typ + ")", Input: map[string]string{"type": c.typ, "value": src, "bytes": x.enc[3:]}, Expect: want, Actual: x.dec})
				continue
			}
			if x.reenc != x.enc {
				r.find(Finding{Kind: "violation", What: "re-encoding the decoded value does not reproduce the bytes (type " + c.typ + ")", Input: map[string]string{"type": c.typ, "value": src, "bytes": x.enc[3:]}, Expect: x.enc, Actual: x.reenc})
			}
			r.Stats["roundtrip-ok"]++
		}
		r.mergeStats("gen:", g.Stats)
	}
}

// c01PayloadTypes: "Decode(Encode(v)) is an equal value OF THE SAME PAYLOAD TYPES". Which Go type a payload comes back as is
// decided by the operation -> payload dispatch (BuildFieldValue); the random values of the main run are themselves generated
// from the dispatch tables read off the code, so a wrong table entry whose type happens to be wire-compatible (Activate /
// Revoke / Destroy responses all hold one Unique Identifier) is invisible to it. Here every request / response payload type
// of the package is paired with its operation by NAME (FooBarRequest <-> OPERATION_FOO_BAR, case-insensitively), put into a
// message, encoded and decoded: if Decode accepts, the payload must come back as that very type.
func c01PayloadTypes(r *Result) {
	ops := map[string]kmip.Enum{}
	for _, c := range gentab.Consts {
		if strings.HasPrefix(c.Name, "OPERATION_") && c.Typ == "Enum" {
			ops[strings.ToLower(strings.ReplaceAll(strings.TrimPrefix(c.Name, "OPERATION_"), "_", ""))] = kmip.Enum(c.Num)
		}
	}
	types := gen.StructTypes()
	g := gen.New(4242)
	g.WF = true
	ver := kmip.ProtocolVersion{Major: 1, Minor: 4}
	names := typeNames(types)
	for _, tn := range names {
		var suffix string
		switch {
		case strings.HasSuffix(tn, "Request") && tn != "Request":
			suffix = "Request"
		case strings.HasSuffix(tn, "Response") && tn != "Response":
			suffix = "Response"
		default:
			continue
		}
		op, ok := ops[strings.ToLower(strings.TrimSuffix(tn, suffix))]
		if !ok {
			continue
		}
		for _, byPtr := range []bool{false, true} {
			p := g.NewStruct(types[tn])
			var payload interface{} = p.Interface()
			if !byPtr {
				payload = p.Elem().Interface()
			}
			var msg interface{}
			if suffix == "Request" {
				msg = &kmip.Request{Header: kmip.RequestHeader{Version: ver, BatchCount: 1}, BatchItems: []kmip.RequestBatchItem{{Operation: op, RequestPayload: payload}}}
			} else {
				msg = &kmip.Response{Header: kmip.ResponseHeader{Version: ver, TimeStamp: time.Unix(1000000000, 0), BatchCount: 1}, BatchItems: []kmip.ResponseBatchItem{{Operation: op, ResponsePayload: payload}}}
			}
			key := fmt.Sprintf("payload type %s under operation %d (by pointer: %v)", tn, uint32(op), byPtr)
			r.eval(key, true)
			r.Stats["payload-type-probes"]++
			var eb bytes.Buffer
			if err := kmip.NewEncoder(&eb).Encode(msg); err != nil {
				continue // not every random value is encodable; the main run covers that
			}
			var got interface{}
			var derr error
			if suffix == "Request" {
				var m kmip.Request
				derr = kmip.NewDecoder(bytes.NewReader(eb.Bytes())).Decode(&m)
				if derr == nil && len(m.BatchItems) == 1 {
					got = m.BatchItems[0].RequestPayload
				}
			} else {
				var m kmip.Response
				derr = kmip.NewDecoder(bytes.NewReader(eb.Bytes())).Decode(&m)
				if derr == nil && len(m.BatchItems) == 1 {
					got = m.BatchItems[0].ResponsePayload
				}
			}
			if derr != nil {
				r.Stats["payload-type-probes:not-decodable"]++
				continue // an operation without a dispatch entry: Decode refuses, no wrong type is reported
			}
			if reflect.TypeOf(got) != types[tn] {
				r.find(Finding{Kind: "violation", What: "Decode(Encode(v)) returned the payload as another Go type than the one encoded", Input: map[string]string{"message": key, "bytes": hx(eb.Bytes())},
					Expect: tn, Actual: fmt.Sprintf("%T", got)})
			}
		}
	}
}

// c01EmptySequences: a sequence field that is empty is the most ordinary of values (an object with no attributes to list, a
// Locate that found nothing). Encode writes nothing for it; Decode must then not insist on an item. The random values of the
// main run follow the schema read off the code - where a sequence marked `required` is never generated empty - so a sequence
// that BECOMES required is invisible to them. Here every sequence field of every type is emptied, except the three that the
// message model itself requires to be non-empty (a Request / Response has at least one batch item; a Query names at least one
// function): whatever Encode accepts must decode, to the same value, and re-encode to the same bytes.
var requiredSequences = map[string]bool{"Request.BatchItems": true, "Response.BatchItems": true, "QueryRequest.QueryFunctions": true}

func c01EmptySequences(r *Result) {
	types := gen.StructTypes()
	g := gen.New(977)
	g.WF = true
	var empty func(rv reflect.Value) int
	empty = func(rv reflect.Value) int {
		n := 0
		switch rv.Kind() {
		case reflect.Ptr, reflect.Interface:
			if !rv.IsNil() {
				if rv.Kind() == reflect.Interface {
					// an interface holds a copy: rebuild it
					c := reflect.New(rv.Elem().Type()).Elem()
					c.Set(rv.Elem())
					if k := empty(c); k > 0 && rv.CanSet() {
						rv.Set(c)
						n += k
					}
				} else {
					n += empty(rv.Elem())
				}
			}
		case reflect.Struct:
			if rv.Type() == reflect.TypeOf(time.Time{}) {
				return 0
			}
			for i := 0; i < rv.NumField(); i++ {
				f := rv.Field(i)
				if !f.CanSet() {
					continue
				}
				if f.Kind() == reflect.Slice && f.Type().Elem().Kind() != reflect.Uint8 {
					if !requiredSequences[rv.Type().Name()+"."+rv.Type().Field(i).Name] && f.Len() > 0 {
						f.Set(reflect.Zero(f.Type()))
						n++
						continue
					}
					for j := 0; j < f.Len(); j++ {
						n += empty(f.Index(j))
					}
					continue
				}
				n += empty(f)
			}
		}
		return n
	}
	for _, tn := range typeNames(types) {
		for rep := 0; rep < 3; rep++ {
			p := g.NewStruct(types[tn])
			if empty(p) == 0 && rep > 0 {
				continue
			}
			key := fmt.Sprintf("%s with every optional sequence empty (%d)", tn, rep)
			r.eval(key, true)
			r.Stats["empty-sequence-probes"]++
			var eb bytes.Buffer
			if err := kmip.NewEncoder(&eb).Encode(p.Interface()); err != nil {
				r.Stats["empty-sequence-probes:not-encodable"]++
				continue
			}
			out := reflect.New(types[tn])
			if err := kmip.NewDecoder(bytes.NewReader(eb.Bytes())).Decode(out.Interface()); err != nil {
				r.find(Finding{Kind: "violation", What: "Decode refused what Encode wrote for a value whose optional sequences are empty", Input: map[string]string{"type": tn, "value": render.Struct(p.Interface()), "bytes": hx(eb.Bytes())},
					Expect: "nil", Actual: err.Error()})
				continue
			}
			var eb2 bytes.Buffer
			if err := kmip.NewEncoder(&eb2).Encode(out.Interface()); err != nil || !bytes.Equal(eb.Bytes(), eb2.Bytes()) {
				r.find(Finding{Kind: "violation", What: "re-encoding the decoded value (optional sequences empty) does not reproduce the bytes", Input: map[string]string{"type": tn, "bytes": hx(eb.Bytes())},
					Expect: hx(eb.Bytes()), Actual: fmt.Sprintf("%s (error %v)", hx(eb2.Bytes()), err)})
			}
		}
	}
}
