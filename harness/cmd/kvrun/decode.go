package main

import (
	"errors"
	"fmt"
	"io"
	"math/rand"
	"reflect"
	"strings"
	"time"

	kmip "github.com/smira/go-kmip"

	"kvharness/internal/render"
)

var errInjected = errors.New("injected I/O error")

// src is a byte source with a configurable delivery discipline. When scanner is true it is handed to
// NewDecoder through a type that also implements io.ByteScanner (so the Decoder does not buffer), and
// `pulled` counts exactly the bytes the decoder consumed.
type src struct {
	data   []byte
	pos    int
	mode   string // mem | onebyte | chunks | dataeof | dataeof-full (every request satisfied in full, EOF with the last bytes)
	fin    error  // io.EOF or errInjected
	r      *rand.Rand
	pulled int
	zeroes int
}

func (s *src) Read(p []byte) (int, error) {
	if len(p) == 0 {
		return 0, nil
	}
	if s.pos >= len(s.data) {
		return 0, s.fin
	}
	n := len(p)
	switch s.mode {
	case "onebyte":
		n = 1
	case "chunks", "dataeof":
		if s.zeroes < 3 && s.r.Intn(6) == 0 {
			s.zeroes++
			return 0, nil // a zero-length read (allowed by io.Reader, discouraged)
		}
		s.zeroes = 0
		n = 1 + s.r.Intn(len(p))
		if s.r.Intn(3) == 0 {
			n = 1 + s.r.Intn(9)
		}
	}
	if n > len(p) {
		n = len(p)
	}
	if n > len(s.data)-s.pos {
		n = len(s.data) - s.pos
	}
	copy(p, s.data[s.pos:s.pos+n])
	s.pos += n
	s.pulled += n
	// data together with the end-of-stream indication. (An injected I/O error is always reported by a read that
	// returns no data: the model's `ioerr` has exactly that meaning; data+error in one call makes bufio report
	// the error where the limit reader would have reported EOF, which the flat model does not express.)
	if (s.mode == "dataeof" || s.mode == "dataeof-full") && s.pos == len(s.data) && s.fin == io.EOF {
		return n, s.fin
	}
	return n, nil
}

type scanSrc struct{ *src }

func (s scanSrc) ReadByte() (byte, error) {
	if s.pos >= len(s.data) {
		return 0, s.fin
	}
	b := s.data[s.pos]
	s.pos++
	s.pulled++
	return b, nil
}

func (s scanSrc) UnreadByte() error {
	if s.pos == 0 {
		return errors.New("unread at start")
	}
	s.pos--
	s.pulled--
	return nil
}

type decOut struct {
	class   string // ok | eof | err | panic | timeout
	value   string // rendered (ok only)
	pulled  int
	perr    string
	target  reflect.Value
	scanner bool
}

func classifyErr(err error) string {
	if err == nil {
		return "ok"
	}
	if err == io.EOF {
		return "eof"
	}
	return "err"
}

// decodeWith runs one Decode on an existing decoder into a fresh value of type t, with a watchdog
func decodeWith(d *kmip.Decoder, t reflect.Type) decOut {
	tgt := reflect.New(t)
	ch := make(chan decOut, 1)
	go func() {
		var o decOut
		var err error
		func() {
			defer func() {
				if p := recover(); p != nil {
					o.perr = fmt.Sprint(p)
				}
			}()
			err = d.Decode(tgt.Interface())
		}()
		if o.perr != "" {
			o.class = "panic"
		} else {
			o.class = classifyErr(err)
		}
		ch <- o
	}()
	select {
	case o := <-ch:
		o.target = tgt
		if o.class == "ok" {
			o.value = render.Struct(tgt.Interface())
		}
		return o
	case <-time.After(5 * time.Second):
		return decOut{class: "timeout"}
	}
}

// realDecode decodes data into a fresh t. scanner=true: unbuffered source with exact consumption count
func realDecode(t reflect.Type, data []byte, mode string, fin error, scanner bool, r *rand.Rand) decOut {
	s := &src{data: data, mode: mode, fin: fin, r: r}
	var d *kmip.Decoder
	if scanner {
		d = kmip.NewDecoder(scanSrc{s})
	} else {
		d = kmip.NewDecoder(s)
	}
	o := decodeWith(d, t)
	o.pulled = s.pulled
	o.scanner = scanner
	return o
}

func (o decOut) line(withN bool) string {
	switch o.class {
	case "ok":
		if withN {
			return fmt.Sprintf("ok %d %s", o.pulled, o.value)
		}
		return "ok " + o.value
	}
	return o.class
}

// dropN removes the byte count from a model reply "ok N <val>"
func dropN(reply string) string {
	if strings.HasPrefix(reply, "ok ") {
		rest := reply[3:]
		if i := strings.IndexByte(rest, ' '); i > 0 {
			return "ok " + rest[i+1:]
		}
	}
	return reply
}

// normTokens applies the documented normalisations to a rendered value: pointer payload -> value payload, skip -> nil
func normTokens(s string) string {
	toks := strings.Fields(s)
	for i, t := range toks {
		switch t {
		case "p":
			toks[i] = "v"
		case "k1":
			toks[i] = "k0"
		}
	}
	return strings.Join(toks, " ")
}

func declaredEnd(b []byte) int {
	if len(b) < 8 {
		return len(b)
	}
	l := int(b[4])<<24 | int(b[5])<<16 | int(b[6])<<8 | int(b[7])
	return 8 + l
}
