package main

import (
	"context"
	"fmt"
	"net"
	"os"
	"os/exec"
	"strings"
	"sync/atomic"
	"time"

	kmip "github.com/smira/go-kmip"

	"kvharness/internal/rec"
)

// Scenarios in which the unchanged library may legitimately take the whole process down (an application callback that panics
// is the application's bug, and nothing in the properties says the server survives it) run in a CHILD process: kvrun re-executes
// itself with KV_CHILD=<scenario>, the child prints its observations, the parent judges them - a child that died observed
// nothing, which is fine wherever "nothing ran" is what the property asks for.

func init() {
	if sc := os.Getenv("KV_CHILD"); sc != "" {
		childMain(sc)
		os.Exit(0)
	}
}

func runChild(scenario string, timeout time.Duration) (out string, died bool) {
	exe, err := os.Executable()
	if err != nil {
		return "cannot find own executable: " + err.Error(), true
	}
	ctx, cancel := context.WithTimeout(context.Background(), timeout)
	defer cancel()
	cmd := exec.CommandContext(ctx, exe)
	cmd.Env = append(os.Environ(), "KV_CHILD="+scenario, "KV_CRUMB=", "GORACE=")
	b, err := cmd.CombinedOutput()
	return string(b), err != nil
}

func childMain(scenario string) {
	switch {
	case strings.HasPrefix(scenario, "c09-auth-panic:"):
		// c09-auth-panic:<session|request>:<nil|value>
		f := strings.Split(scenario, ":")
		var calls, responses int32
		s := &kmip.Server{}
		boom := func() {
			if f[2] == "nil" {
				panic(nil)
			}
			panic("lookup failed")
		}
		if f[1] == "session" {
			s.SessionAuthHandler = func(c net.Conn) (interface{}, error) { boom(); return nil, nil }
		} else {
			s.RequestAuthHandler = func(sc *kmip.SessionContext, a *kmip.Authentication) (interface{}, error) { boom(); return nil, nil }
		}
		s.Handle(kmip.OPERATION_ACTIVATE, func(ctx *kmip.RequestContext, item *kmip.RequestBatchItem) (interface{}, error) {
			atomic.AddInt32(&calls, 1)
			fmt.Printf("OBS handler-ran requestAuth=%v sessionAuth=%v\n", ctx.RequestAuth, ctx.SessionAuth)
			return kmip.ActivateResponse{UniqueIdentifier: "x"}, nil
		})
		sc, cc := rec.Pipe()
		l := rec.NewListener()
		l.Push(rec.AcceptStep{Conn: rec.NewConn(sc, 1)})
		init := make(chan struct{})
		go func() { _ = s.Serve(l, init) }()
		<-init
		_ = cc.SetDeadline(time.Now().Add(2 * time.Second))
		req := kmip.Request{Header: kmip.RequestHeader{Version: kmip.ProtocolVersion{Major: 1, Minor: 4}, BatchCount: 1,
			Authentication: kmip.Authentication{CredentialType: kmip.CREDENTIAL_TYPE_USERNAME_AND_PASSWORD, CredentialValue: kmip.CredentialUsernamePassword{Username: "mallory", Password: "x"}}},
			BatchItems: []kmip.RequestBatchItem{{Operation: kmip.OPERATION_ACTIVATE, RequestPayload: kmip.ActivateRequest{UniqueIdentifier: "a"}}}}
		var resp kmip.Response
		if err := kmip.NewEncoder(cc).Encode(&req); err == nil {
			if err := kmip.NewDecoder(cc).Decode(&resp); err == nil {
				atomic.AddInt32(&responses, 1)
			}
		}
		time.Sleep(50 * time.Millisecond)
		fmt.Printf("OBS done handler-calls=%d responses=%d\n", atomic.LoadInt32(&calls), atomic.LoadInt32(&responses))
	default:
		fmt.Println("unknown child scenario", scenario)
		os.Exit(3)
	}
}

// c09AuthCallbackPanics: an authentication callback that fails by panicking - with a value, or with nil (under the
// library's declared language version recover() cannot tell the latter from "no panic") - has NOT accepted anything. Whatever
// else happens (the unchanged library lets the panic take the process down), no operation handler runs and no response is
// sent for that connection / request.
func c09AuthCallbackPanics(r *Result) {
	for _, which := range []string{"session", "request"} {
		for _, val := range []string{"nil", "value"} {
			key := fmt.Sprintf("%s-authentication callback panics with %s (run in a child process)", which, val)
			r.eval(key, true)
			out, died := runChild("c09-auth-panic:"+which+":"+val, 20*time.Second)
			r.Stats[fmt.Sprintf("auth-callback-panic:child-died=%v", died)]++
			if strings.Contains(out, "OBS handler-ran") || strings.Contains(out, "responses=1") {
				obs := ""
				for _, ln := range strings.Split(out, "\n") {
					if strings.HasPrefix(ln, "OBS") {
						obs += ln + "; "
					}
				}
				r.find(Finding{Kind: "violation", What: "an operation handler ran (or a response was sent) although the authentication callback never accepted: it panicked", Input: key, Expect: "no handler call, no response", Actual: obs})
			}
		}
	}
}
