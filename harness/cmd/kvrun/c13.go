package main

import (
	"bytes"
	"fmt"
	"io"
	"math/rand"
	"reflect"
	"strings"
	"time"

	kmip "github.com/smira/go-kmip"

	"kvharness/internal/drv"
	"kvharness/internal/gen"
	"kvharness/internal/render"
)

// ---- C13: Encode/Decode never panic; a failed Encode writes nothing --------------------------------------------

func init() { props["C13"] = runC13 }

// TDisp: a DynamicDispatch target whose BuildFieldValue misbehaves (mirrored in lean/Driver/Parse.lean)
type TDisp struct {
	kmip.Tag `kmip:"ACTIVATION_DATE"`
	Sel      kmip.Enum   `kmip:"OPERATION,required"`
	V        interface{} `kmip:"REQUEST_PAYLOAD,required"`
}

func (t *TDisp) BuildFieldValue(name string) (interface{}, error) {
	switch t.Sel {
	case 1:
		return nil, nil
	case 2:
		return kmip.Name{}, nil
	case 3:
		return new(int32), nil
	case 4:
		return time.Duration(0), nil
	case 5:
		return &kmip.Name{}, nil
	case 6:
		return int32(0), nil
	case 7:
		return &TBadType{}, nil
	}
	return nil, fmt.Errorf("unsupported selector %d", t.Sel)
}

func init() { testTypes["TDisp"] = reflect.TypeOf(TDisp{}) }

// named scalar and slice-of-named types: not among the Go types the codec supports, so a struct holding them is rejected with
// an error (the model's TBadType: one field of unsupported type) — whatever bytes are on the wire, valid ones included
type (
	namedEnum kmip.Enum
	namedStr  string
	namedI32  int32
	namedI64  int64
	namedBool bool
)
type TNamedEnum struct {
	kmip.Tag `kmip:"ACTIVATION_DATE"`
	A        namedEnum `kmip:"APPLICATION_DATA,required"`
}
type TNamedStr struct {
	kmip.Tag `kmip:"ACTIVATION_DATE"`
	A        namedStr `kmip:"APPLICATION_DATA,required"`
}
type TNamedI32 struct {
	kmip.Tag `kmip:"ACTIVATION_DATE"`
	A        namedI32 `kmip:"APPLICATION_DATA,required"`
}
type TNamedI64 struct {
	kmip.Tag `kmip:"ACTIVATION_DATE"`
	A        namedI64 `kmip:"APPLICATION_DATA,required"`
}
type TNamedBool struct {
	kmip.Tag `kmip:"ACTIVATION_DATE"`
	A        namedBool `kmip:"APPLICATION_DATA,required"`
}
type TNamedSlice struct {
	kmip.Tag `kmip:"ACTIVATION_DATE"`
	A        []namedEnum `kmip:"APPLICATION_DATA,required"`
}

// ttlvItem builds one primitive item under APPLICATION_DATA wrapped in an ACTIVATION_DATE structure
func wrapAppData(typ byte, value []byte) []byte {
	pad := (8 - len(value)%8) % 8
	item := append([]byte{0x42, 0x00, 0x02, typ, 0, 0, 0, byte(len(value))}, append(append([]byte(nil), value...), make([]byte, pad)...)...)
	return append([]byte{0x42, 0x00, 0x01, 0x01, 0, 0, 0, byte(len(item))}, item...)
}

var badValues = []func() interface{}{
	func() interface{} { return nil },
	func() interface{} { return (*kmip.GetRequest)(nil) },
	func() interface{} { return 42 },
	func() interface{} { return uint8(7) },
	func() interface{} { return 3.5 },
	func() interface{} { return "a string" },
	func() interface{} { return int32(5) },
	func() interface{} { return kmip.Enum(5) },
	func() interface{} { return []byte{1, 2} },
	func() interface{} { return time.Second },
	func() interface{} { return map[string]int{"a": 1} },
	func() interface{} { return []int{1, 2} },
	func() interface{} { return [2]int{1, 2} },
	func() interface{} { return func() {} },
	func() interface{} { return make(chan int) },
	func() interface{} { p := &kmip.GetRequest{}; return &p },
	func() interface{} { return TBadTag{A: 1} },
	func() interface{} { return &TBadType{A: 1} },
	func() interface{} { return TNestedBad{A: 1} },
	func() interface{} { return TOptNestedBad{A: 1} },
	func() interface{} { return TOptNestedBad{A: 1, N: TBadType{A: 2}} },
	func() interface{} { return TNoTag{A: 3} },
	func() interface{} { return TPlain{A: 1, B: "x"} },
	func() interface{} { return &TDur{D: 5 * time.Second, O: -time.Second, L: -1, T: time.Unix(5, 0)} },
	func() interface{} { return TSlices{A: []int32{1, 2}, B: [][]byte{{1}, {}}, C: []string{"a", ""}} },
	func() interface{} { return TSlices{} },
}

// positions: an interface-typed field of a real message is set to each bad value
func atPositions(bad interface{}) []interface{} {
	op := kmip.OPERATION_GET
	return []interface{}{
		bad,
		&kmip.Request{Header: kmip.RequestHeader{BatchCount: 1}, BatchItems: []kmip.RequestBatchItem{{Operation: op, RequestPayload: bad}}},
		kmip.Response{Header: kmip.ResponseHeader{BatchCount: 2, TimeStamp: time.Unix(9, 0)}, BatchItems: []kmip.ResponseBatchItem{
			{Operation: op, ResponsePayload: kmip.GetResponse{ObjectType: 1, UniqueIdentifier: "ok"}}, {Operation: op, ResponsePayload: bad}}},
		kmip.Attribute{Name: "Cryptographic Length", Value: bad},
		&kmip.Authentication{CredentialType: 1, CredentialValue: bad},
		kmip.RequestHeader{BatchCount: 1, Authentication: kmip.Authentication{CredentialType: 1, CredentialValue: bad}},
		TDyn{V: bad},
		kmip.CreateRequest{ObjectType: 2, TemplateAttribute: kmip.TemplateAttribute{Attributes: kmip.Attributes{{Name: "x", Value: 1}, {Name: "State", Value: bad}}}},
	}
}

func runC13(r *Result, d *drv.Driver, tier string, seed int64, replay string) {
	defer drainDestFindings(r)
	nRand := 4000
	if tier == "thorough" {
		nRand = 60000
	}
	r.Rule = "every kind of unsupported value (nil, typed nil, foreign scalars, strings/enums/bytes at struct positions, maps, slices, arrays, funcs, channels, pointer-to-pointer, structs with unknown tag names or unsupported field types, nested and optional) at the top level and at every interface-typed position of real messages; " +
		"random message values with half of their dynamic positions replaced by junk; every kind of Decode target (nil, non-pointer, nil pointer, pointers to int/pointer/interface/map/slice, structs with bad annotations, a dynamic field without DynamicDispatch, a DynamicDispatch whose BuildFieldValue returns nil / a struct by value / *int32 / time.Duration / a badly annotated struct); structs with annotated embedded fields of unexported types (struct, pointer, aliases of time.Time / time.Duration / []byte / Enum, interface) as values and as targets of a stream that contains the annotated item. " +
		"Each call runs under recover with a recording writer: outcome class and bytes compared with the model; a failed Encode must have written nothing. distinct = distinct rendered input; non-trivial = input exercises an error or junk path"
	c13Embedded(r)
	c13Unsupported(r)
	var cases []interface{}
	for _, mk := range badValues {
		cases = append(cases, atPositions(mk())...)
	}
	g := gen.New(seed)
	g.WF = false
	g.JunkDyn = 0.5
	types := gen.StructTypes()
	names := typeNames(types)
	for i := 0; i < nRand; i++ {
		name := []string{"Request", "Response", "RequestBatchItem", "ResponseBatchItem", "Attribute", "Authentication", "TemplateAttribute", "RequestHeader"}[g.R.Intn(8)]
		if g.R.Intn(4) == 0 {
			name = names[g.R.Intn(len(names))]
		}
		p := g.NewStruct(types[name])
		if g.R.Intn(2) == 0 {
			cases = append(cases, p.Interface())
		} else {
			cases = append(cases, p.Elem().Interface())
		}
	}
	var lines []string
	reals := make([]string, len(cases))
	writtens := make([]int, len(cases))
	// sentinel: a good value whose bytes are taken before anything is rejected; after every rejected value it is encoded
	// again — whatever the failed Encode had produced must not surface later either
	sentinel := kmip.Request{Header: kmip.RequestHeader{Version: kmip.ProtocolVersion{Major: 1, Minor: 4}, BatchCount: 1},
		BatchItems: []kmip.RequestBatchItem{{Operation: kmip.OPERATION_GET, RequestPayload: kmip.GetRequest{UniqueIdentifier: "49a1ca88-6bea-4fb2-b450-7e58802c3038"}}}}
	sentinelRef, _, _ := realEncode(sentinel)
	leaks := 0
	for i, c := range cases {
		out, written, perr := realEncode(c)
		reals[i] = out
		writtens[i] = len(written)
		if out == "err" {
			if again, _, _ := realEncode(sentinel); again != sentinelRef && leaks < 3 {
				leaks++
				r.find(Finding{Kind: "violation", What: "output of a rejected value surfaced in the next Encode (a failed Encode must leave nothing behind)",
					Input: map[string]string{"rejected": render.Top(c), "go": fmt.Sprintf("%T", c), "then": "Get request"}, Expect: sentinelRef, Actual: again})
			}
		}
		if perr != "" {
			reals[i] = "panic"
			r.find(Finding{Kind: "violation", What: "Encode panicked", Input: map[string]string{"value": render.Top(c), "go": fmt.Sprintf("%T", c)}, Expect: "complete message or error", Actual: "panic: " + perr})
		}
		lines = append(lines, "enctop "+render.Top(c))
	}
	replies, err := d.AskAll(lines)
	if err != nil {
		r.find(Finding{Kind: "disagreement", What: "driver failure", Input: err.Error()})
		return
	}
	for i, c := range cases {
		line := lines[i]
		r.eval(line, !strings.HasPrefix(reals[i], "ok") || strings.Contains(line, " x "))
		r.Stats["encode:"+classOf(reals[i])]++
		if i%997 == 0 || (i < 3) {
			r.sample(map[string]string{"go_type": fmt.Sprintf("%T", c), "value": line, "real": reals[i][:min(len(reals[i]), 80)]})
		}
		if strings.HasPrefix(replies[i], "bad-op") {
			// the line protocol cannot express this Go value (e.g. a string at top level): class must still be an error
			if reals[i] != "err" {
				r.find(Finding{Kind: "disagreement", What: "harness cannot render a value that Encode accepted", Input: line, Actual: reals[i]})
			}
			continue
		}
		if replies[i] != reals[i] {
			r.find(Finding{Kind: "disagreement", What: "encode model differs from real Encode on an ill-typed value", Input: map[string]string{"op": "enctop", "value": line, "go": fmt.Sprintf("%T", c)}, Expect: replies[i], Actual: reals[i]})
		}
		if reals[i] == "err" && writtens[i] != 0 {
			r.find(Finding{Kind: "violation", What: "a failed Encode wrote to the destination", Input: map[string]string{"value": line}, Expect: "0 bytes", Actual: fmt.Sprintf("%d bytes", writtens[i])})
		}
	}
	// ---- Decode targets
	validName, _, _ := realEncode(kmip.Name{Value: "n", Type: 1})
	nameBytes := mustHex(validName[3:])
	var tdisp [][]byte
	for sel := 0; sel <= 8; sel++ {
		// TDisp header + Sel + a Name structure / an integer under REQUEST_PAYLOAD
		for _, payload := range []interface{}{kmip.Name{Value: "n", Type: 1}, int32(7)} {
			var body bytes.Buffer
			_ = kmip.NewEncoder(&body).Encode(TDyn{V: payload}) // gives APPLICATION_DATA-tagged payload; retag below
			b := body.Bytes()
			inner := append([]byte(nil), b[8:]...)
			inner[0], inner[1], inner[2] = 0x42, 0x00, 0x79 // REQUEST_PAYLOAD
			selItem := []byte{0x42, 0x00, 0x5c, 0x05, 0, 0, 0, 4, 0, 0, 0, byte(sel), 0, 0, 0, 0}
			msg := append([]byte{0x42, 0x00, 0x01, 0x01, 0, 0, 0, byte(len(selItem) + len(inner))}, append(selItem, inner...)...)
			tdisp = append(tdisp, msg)
		}
	}
	type tgt struct {
		model string
		mk    func() interface{}
		data  [][]byte
	}
	var ip *int
	var iface interface{}
	targets := []tgt{
		{"nil", func() interface{} { return nil }, [][]byte{nameBytes, nil}},
		{"nonptr", func() interface{} { return kmip.Name{} }, [][]byte{nameBytes}},
		{"nilptr", func() interface{} { return (*kmip.Name)(nil) }, [][]byte{nameBytes}},
		{"ptrnonstruct", func() interface{} { return new(int) }, [][]byte{nameBytes}},
		{"ptrnonstruct", func() interface{} { return &ip }, [][]byte{nameBytes}},
		{"ptrnonstruct", func() interface{} { return &iface }, [][]byte{nameBytes}},
		{"ptrnonstruct", func() interface{} { return &map[string]int{} }, [][]byte{nameBytes}},
		{"ptrnonstruct", func() interface{} { return &[]int{} }, [][]byte{nameBytes}},
		{"ptrnonstruct", func() interface{} { s := "x"; return &s }, [][]byte{nameBytes}},
		{"TBadTag", func() interface{} { return &TBadTag{} }, [][]byte{nameBytes}},
		{"TBadType", func() interface{} { return &TBadType{} }, [][]byte{nameBytes}},
		{"TNestedBad", func() interface{} { return &TNestedBad{} }, [][]byte{nameBytes, mustHex("4200010100000020420002020000000400000001000000004200040100000000")}},
		{"TDyn", func() interface{} { return &TDyn{} }, [][]byte{tdisp[0], mustHex("42000101000000104200020200000004000000010000000000")}},
		{"TDisp", func() interface{} { return &TDisp{} }, tdisp},
		{"Name", func() interface{} { return &kmip.Name{} }, [][]byte{nameBytes, nameBytes[:20], nil}},
		// the valid stream for the underlying core type, a truncated one, and nothing
		{"TBadType", func() interface{} { return &TNamedEnum{} }, [][]byte{wrapAppData(5, []byte{0, 0, 0, 3}), wrapAppData(5, []byte{0, 0, 0, 3})[:12], nil}},
		{"TBadType", func() interface{} { return &TNamedStr{} }, [][]byte{wrapAppData(7, []byte("label")), nil}},
		{"TBadType", func() interface{} { return &TNamedI32{} }, [][]byte{wrapAppData(2, []byte{0, 0, 0, 9}), nil}},
		{"TBadType", func() interface{} { return &TNamedI64{} }, [][]byte{wrapAppData(3, []byte{0, 0, 0, 0, 0, 0, 0, 9}), nil}},
		{"TBadType", func() interface{} { return &TNamedBool{} }, [][]byte{wrapAppData(6, []byte{0, 0, 0, 0, 0, 0, 0, 1}), nil}},
		{"TBadType", func() interface{} { return &TNamedSlice{} }, [][]byte{wrapAppData(5, []byte{0, 0, 0, 3}), nil}},
	}
	lines = nil
	var got []string
	var descr []string
	rng := rand.New(rand.NewSource(seed))
	for _, t := range targets {
		for _, data := range t.data {
			target := t.mk()
			o := decOut{}
			func() {
				defer func() {
					if p := recover(); p != nil {
						o.perr = fmt.Sprint(p)
						o.class = "panic"
					}
				}()
				s := &src{data: data, mode: "mem", fin: io.EOF, r: rng}
				e := kmip.NewDecoder(scanSrc{s}).Decode(target)
				o.class = classifyErr(e)
				o.pulled = s.pulled
				if e == nil {
					o.value = render.Struct(target)
				}
			}()
			if o.class == "panic" {
				r.find(Finding{Kind: "violation", What: "Decode panicked on the target it was given", Input: map[string]string{"target": fmt.Sprintf("%T", target), "bytes": hx(data)}, Expect: "error", Actual: "panic: " + o.perr})
			}
			got = append(got, o.line(true))
			descr = append(descr, fmt.Sprintf("%T %s", target, hx(data)))
			lines = append(lines, fmt.Sprintf("dect %s eof %s", t.model, hx(data)))
		}
	}
	replies, err = d.AskAll(lines)
	if err != nil {
		r.find(Finding{Kind: "disagreement", What: "driver failure", Input: err.Error()})
		return
	}
	for i := range lines {
		r.eval(lines[i], true)
		r.Stats["decode-target:"+classOf(got[i])]++
		if replies[i] != got[i] {
			r.find(Finding{Kind: "disagreement", What: "decode model differs from real Decode on an unusual target", Input: map[string]string{"op": lines[i], "target": descr[i]}, Expect: replies[i], Actual: got[i]})
		}
	}
}

func min(a, b int) int {
	if a < b {
		return a
	}
	return b
}

// ---- values and targets with embedded fields of unexported types that carry annotations -------------------------------------
// reflect hands such fields out read-only: Interface() and Set() on them panic. The codec has to keep ignoring them (or fail
// with an error); the stream given to Decode contains the item the annotation names, so a decoder that took the field on
// would have to store into it.

type c13ver struct {
	Major int32 `kmip:"PROTOCOL_VERSION_MAJOR,required"`
	Minor int32 `kmip:"PROTOCOL_VERSION_MINOR,required"`
}
type c13stamp = time.Time
type c13dur = time.Duration
type c13any interface{}
type c13blob = []byte
type c13enum = kmip.Enum

type TEmbedStruct struct {
	kmip.Tag   `kmip:"REQUEST_HEADER"`
	c13ver     `kmip:"PROTOCOL_VERSION"`
	BatchCount int32 `kmip:"BATCH_COUNT,required"`
}
type TEmbedPtr struct {
	kmip.Tag   `kmip:"REQUEST_HEADER"`
	*c13ver    `kmip:"PROTOCOL_VERSION"`
	BatchCount int32 `kmip:"BATCH_COUNT,required"`
}
type TEmbedTime struct {
	kmip.Tag `kmip:"RESPONSE_HEADER"`
	c13stamp `kmip:"TIME_STAMP"`
	B        int32 `kmip:"BATCH_COUNT,required"`
}
type TEmbedDur struct {
	kmip.Tag `kmip:"RESPONSE_HEADER"`
	c13dur   `kmip:"TIME_STAMP"`
	B        int32 `kmip:"BATCH_COUNT,required"`
}
type TEmbedAny struct {
	kmip.Tag `kmip:"ATTRIBUTE"`
	c13any   `kmip:"ATTRIBUTE_VALUE"`
	B        int32 `kmip:"BATCH_COUNT"`
}
type TEmbedBlob struct {
	kmip.Tag `kmip:"RESPONSE_HEADER"`
	c13blob  `kmip:"TIME_STAMP"`
	c13enum  `kmip:"BATCH_COUNT"`
}

// structs with fields of Go types the codec has no TTLV type for, under every kind of annotation - a real tag name, the
// any-tag marker "-", with and without the options required / skip
type TUnsMapAny struct {
	kmip.Tag `kmip:"REQUEST_HEADER"`
	A        int32          `kmip:"BATCH_COUNT"`
	M        map[string]int `kmip:"-"`
}
type TUnsFloatAny struct {
	kmip.Tag `kmip:"REQUEST_HEADER"`
	F        float64 `kmip:"-"`
	A        int32   `kmip:"BATCH_COUNT"`
}
type TUnsPtrAnyReq struct {
	kmip.Tag `kmip:"REQUEST_HEADER"`
	P        *int32 `kmip:"-,required"`
}
type TUnsSliceAny struct {
	kmip.Tag `kmip:"REQUEST_HEADER"`
	S        []float64 `kmip:"-"`
}

// interface-typed fields in structs that implement no DynamicDispatch: single, repeated, repeated and required
type TUnsIfaceOne struct {
	kmip.Tag `kmip:"REQUEST_HEADER"`
	V        interface{} `kmip:"BATCH_COUNT"`
}
type TUnsIfaceMany struct {
	kmip.Tag `kmip:"REQUEST_HEADER"`
	Vs       []interface{} `kmip:"BATCH_COUNT"`
}
type TUnsIfaceManyReq struct {
	kmip.Tag `kmip:"REQUEST_HEADER"`
	A        string        `kmip:"SERVER_INFORMATION"`
	Vs       []interface{} `kmip:"BATCH_COUNT,required"`
}
type TUnsMapNamed struct {
	kmip.Tag `kmip:"REQUEST_HEADER"`
	M        map[string]int `kmip:"BATCH_COUNT"`
}
type TUnsChanSkip struct {
	kmip.Tag `kmip:"REQUEST_HEADER"`
	C        chan int `kmip:"-,skip"`
	A        int32    `kmip:"BATCH_COUNT"`
}
type TUnsArrI32 struct {
	kmip.Tag `kmip:"REQUEST_HEADER"`
	A        [3]int32 `kmip:"BATCH_COUNT"`
}
type TUnsArrI32Req struct {
	kmip.Tag `kmip:"REQUEST_HEADER"`
	A        [1]int32 `kmip:"BATCH_COUNT,required"`
}
type TUnsArrStruct struct {
	kmip.Tag `kmip:"REQUEST_HEADER"`
	V        [2]kmip.ProtocolVersion `kmip:"PROTOCOL_VERSION"`
}
type TUnsArrBytes struct {
	kmip.Tag `kmip:"REQUEST_HEADER"`
	S        [4]byte `kmip:"USERNAME"`
	A        int32   `kmip:"BATCH_COUNT"`
}
type TUnsArrText struct {
	kmip.Tag `kmip:"REQUEST_HEADER"`
	S        [2]string `kmip:"USERNAME,required"`
}
type TUnsArrIface struct {
	kmip.Tag `kmip:"REQUEST_HEADER"`
	Vs       [2]interface{} `kmip:"BATCH_COUNT"`
}
// a type that refers to itself (a tree): legal Go, finite values; the description of the type must not be chased for ever
type TNode struct {
	kmip.Tag `kmip:"REQUEST_HEADER"`
	A        int32   `kmip:"BATCH_COUNT"`
	Children []TNode `kmip:"ATTRIBUTE"`
}
type TNodeHolder struct {
	kmip.Tag `kmip:"REQUEST_HEADER"`
	A        int32       `kmip:"BATCH_COUNT"`
	V        interface{} `kmip:"ATTRIBUTE_VALUE"`
}

// c13Unsupported: each of them as Encode value (zero and populated) and as Decode target of streams that carry an item where
// the odd field sits: an error or an orderly result, never a panic
func c13Unsupported(r *Result) {
	i32 := []byte{0x42, 0x00, 0x0d, 2, 0, 0, 0, 4, 0, 0, 0, 7, 0, 0, 0, 0}
	txt := []byte{0x42, 0x00, 0x99, 7, 0, 0, 0, 3, 'a', 'b', 'c', 0, 0, 0, 0, 0}
	wrap := func(items ...[]byte) []byte {
		var body []byte
		for _, it := range items {
			body = append(body, it...)
		}
		return append([]byte{0x42, 0x00, 0x77, 1, 0, 0, 0, byte(len(body))}, body...)
	}
	pv := []byte{0x42, 0x00, 0x69, 1, 0, 0, 0, 32, 0x42, 0x00, 0x6a, 2, 0, 0, 0, 4, 0, 0, 0, 1, 0, 0, 0, 0, 0x42, 0x00, 0x6b, 2, 0, 0, 0, 4, 0, 0, 0, 4, 0, 0, 0, 0}
	streams := [][]byte{wrap(i32), wrap(txt), wrap(i32, txt), wrap(txt, i32), wrap(i32, i32), wrap(), wrap(pv), wrap(pv, pv), wrap(pv, pv, pv), wrap(i32, i32, i32, i32), wrap(txt, txt, txt)}
	five := int32(5)
	values := []interface{}{TUnsMapAny{}, TUnsMapAny{A: 1, M: map[string]int{"a": 1}}, TUnsFloatAny{F: 1.5, A: 1}, TUnsPtrAnyReq{}, TUnsPtrAnyReq{P: &five},
		TUnsSliceAny{S: []float64{1}}, TUnsMapNamed{M: map[string]int{"a": 1}}, TUnsChanSkip{C: make(chan int), A: 1},
		TUnsIfaceOne{V: int32(7)}, TUnsIfaceMany{Vs: []interface{}{int32(7), int32(8)}}, TUnsIfaceMany{}, TUnsIfaceManyReq{A: "abc", Vs: []interface{}{int32(7)}},
		TUnsArrI32{}, TUnsArrI32{A: [3]int32{1, 2, 3}}, TUnsArrI32Req{A: [1]int32{1}}, TUnsArrStruct{}, TUnsArrStruct{V: [2]kmip.ProtocolVersion{{Major: 1, Minor: 4}, {Major: 1, Minor: 2}}},
		TUnsArrBytes{S: [4]byte{1, 2, 3, 4}, A: 1}, TUnsArrText{S: [2]string{"a", "b"}}, TUnsArrIface{}, TUnsArrIface{Vs: [2]interface{}{int32(7), int32(8)}},
		TNode{}, TNode{A: 1, Children: []TNode{{A: 2}, {A: 3, Children: []TNode{{A: 4}}}}}, TNodeHolder{A: 1, V: TNode{A: 2}}, TNodeHolder{A: 1, V: &TNode{A: 2, Children: []TNode{{A: 3}}}}}
	for _, v := range values {
		for _, byPtr := range []bool{false, true} {
			key := fmt.Sprintf("Encode of %T (pointer=%v) %+v", v, byPtr, v)
			crumb("C13 " + key)
			r.eval(key, true)
			x := v
			if byPtr {
				p := reflect.New(reflect.TypeOf(v))
				p.Elem().Set(reflect.ValueOf(v))
				x = p.Interface()
			}
			out, written, _ := realEncode(x)
			r.Stats["unsupported-field-type-probes"]++
			if strings.HasPrefix(out, "panic") {
				r.find(Finding{Kind: "violation", What: "Encode panicked on a struct with a field of an unsupported Go type", Input: key, Expect: "bytes or an error", Actual: out})
			} else if !strings.HasPrefix(out, "ok") && len(written) != 0 {
				r.find(Finding{Kind: "violation", What: "a failed Encode wrote bytes", Input: key, Actual: fmt.Sprintf("%s; wrote %x", out, written)})
			}
		}
		for si, stream := range streams {
			key := fmt.Sprintf("Decode into *%T, stream %d (%x)", v, si, stream)
			crumb("C13 " + key)
			r.eval(key, true)
			res := ""
			func() {
				defer func() {
					if p := recover(); p != nil {
						res = fmt.Sprintf("panic: %v", p)
					}
				}()
				err := kmip.NewDecoder(bytes.NewReader(stream)).Decode(reflect.New(reflect.TypeOf(v)).Interface())
				res = classifyErr(err)
			}()
			r.Stats["unsupported-field-type-probes"]++
			if strings.HasPrefix(res, "panic") {
				r.find(Finding{Kind: "violation", What: "Decode panicked on a target with a field of an unsupported Go type", Input: key, Expect: "nil or an error", Actual: res})
			}
		}
	}
}

func c13Embedded(r *Result) {
	item := func(tag uint32, typ byte, val []byte) []byte {
		b := []byte{byte(tag >> 16), byte(tag >> 8), byte(tag), typ, 0, 0, 0, byte(len(val))}
		b = append(b, val...)
		for len(b)%8 != 0 {
			b = append(b, 0)
		}
		return b
	}
	str := func(tag uint32, kids ...[]byte) []byte {
		var body []byte
		for _, k := range kids {
			body = append(body, k...)
		}
		return append([]byte{byte(tag >> 16), byte(tag >> 8), byte(tag), 1, 0, 0, byte(len(body) >> 8), byte(len(body))}, body...)
	}
	i32 := func(tag uint32, v byte) []byte { return item(tag, 2, []byte{0, 0, 0, v}) }
	when := time.Unix(1000000000, 0)
	verItem := str(0x420069, i32(0x42006A, 1), i32(0x42006B, 4))
	dateItem := item(0x420092, 9, []byte{0, 0, 0, 0, 0x3b, 0x9a, 0xca, 0})
	cases := []struct {
		name    string
		value   interface{}
		target  func() interface{}
		streams [][]byte
	}{
		{"embedded unexported struct", TEmbedStruct{c13ver: c13ver{1, 4}, BatchCount: 1}, func() interface{} { return &TEmbedStruct{} },
			[][]byte{str(0x420077, verItem, i32(0x42000D, 1)), str(0x420077, i32(0x42000D, 1))}},
		{"embedded pointer to unexported struct", TEmbedPtr{c13ver: &c13ver{1, 4}, BatchCount: 1}, func() interface{} { return &TEmbedPtr{} },
			[][]byte{str(0x420077, verItem, i32(0x42000D, 1)), str(0x420077, i32(0x42000D, 1))}},
		{"embedded alias of time.Time", TEmbedTime{c13stamp: when, B: 1}, func() interface{} { return &TEmbedTime{} },
			[][]byte{str(0x42007A, dateItem, i32(0x42000D, 1)), str(0x42007A, i32(0x42000D, 1))}},
		{"embedded alias of time.Duration", TEmbedDur{c13dur: 5 * time.Second, B: 1}, func() interface{} { return &TEmbedDur{} },
			[][]byte{str(0x42007A, item(0x420092, 10, []byte{0, 0, 0, 5}), i32(0x42000D, 1)), str(0x42007A, i32(0x42000D, 1))}},
		{"embedded unexported interface holding a time", TEmbedAny{c13any: when, B: 1}, func() interface{} { return &TEmbedAny{} },
			[][]byte{str(0x420008, i32(0x42000B, 7), i32(0x42000D, 1)), str(0x420008, i32(0x42000D, 1))}},
		{"embedded aliases of []byte and Enum", TEmbedBlob{c13blob: []byte{1, 2, 3}, c13enum: 3}, func() interface{} { return &TEmbedBlob{} },
			[][]byte{str(0x42007A, item(0x420092, 8, []byte{1, 2, 3}), item(0x42000D, 5, []byte{0, 0, 0, 3})), str(0x42007A)}},
	}
	for _, c := range cases {
		for _, byPtr := range []bool{false, true} {
			key := fmt.Sprintf("Encode of a struct with an annotated %s (pointer=%v)", c.name, byPtr)
			crumb("C13 " + key)
			r.eval(key, true)
			v := c.value
			if byPtr {
				p := reflect.New(reflect.TypeOf(v))
				p.Elem().Set(reflect.ValueOf(v))
				v = p.Interface()
			}
			out, written, _ := realEncode(v)
			r.Stats["embedded-unexported-probes"]++
			if strings.HasPrefix(out, "panic") {
				r.find(Finding{Kind: "violation", What: "Encode panicked on a struct with an annotated embedded field of an unexported type", Input: key, Expect: "bytes or an error", Actual: out})
			} else if !strings.HasPrefix(out, "ok") && len(written) != 0 {
				r.find(Finding{Kind: "violation", What: "a failed Encode wrote bytes", Input: key, Actual: fmt.Sprintf("%s; wrote %x", out, written)})
			}
		}
		for si, stream := range c.streams {
			key := fmt.Sprintf("Decode into a struct with an annotated %s, stream %d (%x)", c.name, si, stream)
			crumb("C13 " + key)
			r.eval(key, true)
			res := ""
			func() {
				defer func() {
					if p := recover(); p != nil {
						res = fmt.Sprintf("panic: %v", p)
					}
				}()
				err := kmip.NewDecoder(bytes.NewReader(stream)).Decode(c.target())
				res = classifyErr(err)
			}()
			r.Stats["embedded-unexported-probes"]++
			if strings.HasPrefix(res, "panic") {
				r.find(Finding{Kind: "violation", What: "Decode panicked on a target with an annotated embedded field of an unexported type", Input: key, Expect: "nil or an error", Actual: res})
			}
		}
	}
}
