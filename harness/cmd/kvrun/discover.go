package main

import (
	"context"
	"fmt"
	"reflect"
	"strings"
	"time"
	"unsafe"

	kmip "github.com/smira/go-kmip"

	"kvharness/internal/drv"
	"kvharness/internal/rec"
)

// ---- C20: built-in Discover Versions ------------------------------------------------------------------------

func init() { props["C20"] = runC20 }

var versionUniverse = []kmip.ProtocolVersion{{Major: 1, Minor: 4}, {Major: 1, Minor: 3}, {Major: 1, Minor: 2}, {Major: 1, Minor: 1}, {Major: 2, Minor: 0}}

func verStr(vs []kmip.ProtocolVersion) string {
	if len(vs) == 0 {
		return "-"
	}
	var s []string
	for _, v := range vs {
		s = append(s, fmt.Sprintf("%d.%d", uint32(v.Major), uint32(v.Minor)))
	}
	return strings.Join(s, ",")
}

func allLists(maxLen int) [][]kmip.ProtocolVersion {
	out := [][]kmip.ProtocolVersion{nil}
	cur := [][]kmip.ProtocolVersion{nil}
	for l := 1; l <= maxLen; l++ {
		var next [][]kmip.ProtocolVersion
		for _, p := range cur {
			for _, v := range versionUniverse {
				n := append(append([]kmip.ProtocolVersion(nil), p...), v)
				next = append(next, n)
			}
		}
		out = append(out, next...)
		cur = next
	}
	return out
}

func runC20(r *Result, d *drv.Driver, tier string, seed int64, replay string) {
	maxSup, maxOffer := 3, 3
	if tier == "thorough" {
		maxOffer = 4
	}
	r.Rule = fmt.Sprintf("exhaustive over a 5-version universe {1.4,1.3,1.2,1.1,2.0}: every configured SupportedVersions list of length <= %d (order, duplicates; empty = default, spelled nil / empty literal / filtered-down-to-nothing) x every offer of length <= %d plus near-miss offers (every version M.m with M in 0..3, m in 0..5, negative and 8/16-bit-wrapping components, mixed with genuine ones), configured in one of three orders (struct literal / Handle then assignment / assignment then Handle), each sent as a real Discover Versions request to the real Server over an in-memory connection; reply compared with the model and with the property stated directly (empty offer -> whole list in order; else offer filtered by membership); "+
		"after each server's run the configuration and DefaultSupportedVersions must be unchanged and not share a backing array; the built-in handler is also called in process on each server (the only place the reply is a Go value), its reply checked for shared storage with the configuration, then overwritten and appended to, and the configuration re-read. distinct = one per (configuration, offer)", maxSup, maxOffer)
	r.Exhaustive = true
	sups := allLists(maxSup)
	// configurations outside the universe: lists containing 0.0 - the zero value of ProtocolVersion is a version like any other -,
	// 0.x and x.0 versions
	sups = append(sups, []kmip.ProtocolVersion{{Major: 0, Minor: 0}}, []kmip.ProtocolVersion{{Major: 1, Minor: 4}, {Major: 0, Minor: 0}},
		[]kmip.ProtocolVersion{{Major: 0, Minor: 0}, {Major: 1, Minor: 1}}, []kmip.ProtocolVersion{{Major: 0, Minor: 3}, {Major: 1, Minor: 0}, {Major: 0, Minor: 0}})
	// "not configured" comes in three spellings: nil, an empty literal, a list filtered down to nothing (length 0, capacity left)
	sups = append(sups, nil, nil)
	nSup := len(sups)
	offers := allLists(maxOffer)
	// near misses: versions OUTSIDE the universe that agree with a supported one in one component only (same minor under another
	// major, same major with another minor), or only after truncation to 8 / 16 bits, alone and next to genuine ones
	for _, M := range []int32{0, 1, 2, 3} {
		for m := int32(0); m <= 5; m++ {
			offers = append(offers, []kmip.ProtocolVersion{{Major: M, Minor: m}})
		}
	}
	offers = append(offers,
		[]kmip.ProtocolVersion{{Major: -1, Minor: 4}}, []kmip.ProtocolVersion{{Major: 1, Minor: -1}},
		[]kmip.ProtocolVersion{{Major: 257, Minor: 4}}, []kmip.ProtocolVersion{{Major: 1, Minor: 260}}, []kmip.ProtocolVersion{{Major: 65537, Minor: 65540}},
		[]kmip.ProtocolVersion{{Major: 2, Minor: 4}, {Major: 1, Minor: 4}}, []kmip.ProtocolVersion{{Major: 2, Minor: 3}, {Major: 2, Minor: 4}, {Major: 1, Minor: 0}},
		[]kmip.ProtocolVersion{{Major: 4, Minor: 1}, {Major: 1, Minor: 1}, {Major: 0, Minor: 0}})
	defaultBefore := append([]kmip.ProtocolVersion(nil), kmip.DefaultSupportedVersions...)
	for si, sup := range sups {
		// the configuration reaches the Server in the three orders a caller may use: struct literal; other handlers registered
		// first and the version list assigned afterwards; version list first, then handlers
		mkSup := func() []kmip.ProtocolVersion {
			switch {
			case len(sup) > 0:
				return append([]kmip.ProtocolVersion(nil), sup...)
			case si == nSup-1:
				r.Stats["empty-configuration:literal"]++
				return []kmip.ProtocolVersion{}
			case si == nSup-2:
				r.Stats["empty-configuration:filtered"]++
				return []kmip.ProtocolVersion{{Major: 3, Minor: 0}, {Major: 3, Minor: 1}}[:0]
			}
			r.Stats["empty-configuration:nil"]++
			return nil
		}
		var s *kmip.Server
		other := func(ctx *kmip.RequestContext, item *kmip.RequestBatchItem) (interface{}, error) { return nil, nil }
		switch si % 3 {
		case 0:
			s = &kmip.Server{SupportedVersions: mkSup()}
		case 1:
			s = &kmip.Server{}
			s.Handle(kmip.OPERATION_ACTIVATE, other)
			s.SupportedVersions = mkSup()
		default:
			s = &kmip.Server{}
			s.SupportedVersions = mkSup()
			s.Handle(kmip.OPERATION_ACTIVATE, other)
		}
		r.Stats[fmt.Sprintf("configuration-order-%d", si%3)]++
		configured := append([]kmip.ProtocolVersion(nil), sup...)
		server, client := rec.Pipe()
		l := rec.NewListener()
		l.Push(rec.AcceptStep{Conn: server})
		init := make(chan struct{})
		done := make(chan error, 1)
		go func() { done <- s.Serve(l, init) }()
		<-init
		enc, dec := kmip.NewEncoder(client), kmip.NewDecoder(client)
		var lines []string
		var got []string
		for _, offer := range offers {
			req := kmip.Request{Header: kmip.RequestHeader{Version: kmip.ProtocolVersion{Major: 1, Minor: 4}, BatchCount: 1},
				BatchItems: []kmip.RequestBatchItem{{Operation: kmip.OPERATION_DISCOVER_VERSIONS, RequestPayload: kmip.DiscoverVersionsRequest{ProtocolVersions: offer}}}}
			if err := enc.Encode(&req); err != nil {
				r.find(Finding{Kind: "violation", What: "cannot send Discover Versions request", Input: verStr(offer), Actual: err.Error()})
				break
			}
			var resp kmip.Response
			_ = client.SetReadDeadline(time.Now().Add(10 * time.Second))
			if err := dec.Decode(&resp); err != nil || len(resp.BatchItems) != 1 {
				r.find(Finding{Kind: "violation", What: "no reply to a Discover Versions request", Input: map[string]string{"supported": verStr(sup), "offer": verStr(offer)}, Actual: fmt.Sprint(err)})
				break
			}
			reply := "fail"
			if p, ok := resp.BatchItems[0].ResponsePayload.(kmip.DiscoverVersionsResponse); ok && resp.BatchItems[0].ResultStatus == kmip.RESULT_STATUS_SUCCESS {
				reply = "ok " + verStr(p.ProtocolVersions)
			}
			got = append(got, reply)
			lines = append(lines, fmt.Sprintf("discover %s %s", verStr(sup), verStr(offer)))
		}
		c20AliasProbe(r, s, sup, offers)
		client.Close()
		ctx, cancel := context.WithTimeout(context.Background(), 10*time.Second)
		if err := s.Shutdown(ctx); err != nil {
			r.find(Finding{Kind: "violation", What: "Shutdown after Discover Versions traffic failed", Actual: err.Error()})
		}
		cancel()
		<-done
		replies, err := d.AskAll(lines)
		if err != nil {
			r.find(Finding{Kind: "disagreement", What: "driver failure", Input: err.Error()})
			return
		}
		effective := sup
		if len(sup) == 0 {
			effective = defaultBefore
		}
		for i := range lines {
			offer := offers[i]
			key := lines[i]
			r.eval(key, len(offer) > 0 && len(sup) > 0)
			if len(r.Samples) < 3 && len(offer) == 3 && len(sup) == 2 {
				r.sample(map[string]string{"supported": verStr(sup), "offer": verStr(offer), "reply": got[i]})
			}
			if replies[i] != got[i] {
				r.find(Finding{Kind: "disagreement", What: "Discover Versions model differs from the real handler", Input: map[string]string{"supported": verStr(sup), "offer": verStr(offer)}, Expect: replies[i], Actual: got[i]})
			}
			// the property, stated directly
			var want []kmip.ProtocolVersion
			if len(offer) == 0 {
				want = effective
			} else {
				for _, o := range offer {
					for _, e := range effective {
						if o == e {
							want = append(want, o)
							break
						}
					}
				}
			}
			if got[i] != "ok "+verStr(want) {
				r.find(Finding{Kind: "violation", What: "Discover Versions reply is not exactly the supported subset of the offer", Input: map[string]string{"supported": verStr(sup), "offer": verStr(offer)}, Expect: "ok " + verStr(want), Actual: got[i]})
			}
		}
		// configuration untouched, defaults untouched, no shared backing array
		if len(sup) > 0 && !reflect.DeepEqual(s.SupportedVersions, configured) {
			r.find(Finding{Kind: "violation", What: "serving Discover Versions mutated Server.SupportedVersions", Input: verStr(configured), Actual: verStr(s.SupportedVersions)})
		}
		if !reflect.DeepEqual(kmip.DefaultSupportedVersions, defaultBefore) {
			r.find(Finding{Kind: "violation", What: "DefaultSupportedVersions was mutated", Expect: verStr(defaultBefore), Actual: verStr(kmip.DefaultSupportedVersions)})
		}
		if len(sup) == 0 {
			if !reflect.DeepEqual(s.SupportedVersions, defaultBefore) {
				r.find(Finding{Kind: "violation", What: "an empty configuration did not default to 1.4, 1.3, 1.2, 1.1", Actual: verStr(s.SupportedVersions)})
			} else if &s.SupportedVersions[0] == &kmip.DefaultSupportedVersions[0] {
				r.find(Finding{Kind: "violation", What: "the defaulted configuration aliases DefaultSupportedVersions instead of copying it", Actual: "same backing array"})
			}
		}
	}
}

// builtinDiscover fetches the handler the running Server has registered for Discover Versions (an unexported map; read
// through reflection, nothing in /repo is changed for it).
func builtinDiscover(s *kmip.Server) kmip.Handler {
	f := reflect.ValueOf(s).Elem().FieldByName("handlers")
	if !f.IsValid() || f.Kind() != reflect.Map {
		return nil
	}
	m := reflect.NewAt(f.Type(), unsafe.Pointer(f.UnsafeAddr())).Elem()
	v := m.MapIndex(reflect.ValueOf(kmip.OPERATION_DISCOVER_VERSIONS))
	if !v.IsValid() {
		return nil
	}
	h, _ := v.Interface().(kmip.Handler)
	return h
}

func sharesBacking(a, b []kmip.ProtocolVersion) bool {
	a, b = a[:cap(a)], b[:cap(b)]
	for i := range a {
		for j := range b {
			if &a[i] == &b[j] {
				return true
			}
		}
	}
	return false
}

// c20AliasProbe calls the built-in handler in process - the only place where the reply is a Go value rather than bytes - and
// plays the consumer the property protects the configuration from: it checks that the reply shares no storage with the
// configuration (or the package default), then scribbles over the reply and appends to it, and asks again.
func c20AliasProbe(r *Result, s *kmip.Server, sup []kmip.ProtocolVersion, offers [][]kmip.ProtocolVersion) {
	h := builtinDiscover(s)
	if h == nil {
		r.find(Finding{Kind: "disagreement", What: "the built-in Discover Versions handler is no longer reachable where the harness looks for it (Server.handlers)"})
		return
	}
	before := append([]kmip.ProtocolVersion(nil), s.SupportedVersions...)
	defBefore := append([]kmip.ProtocolVersion(nil), kmip.DefaultSupportedVersions...)
	for oi, offer := range offers {
		if oi > 40 && len(offer) > 1 && oi%7 != 0 {
			continue
		}
		in := append([]kmip.ProtocolVersion(nil), offer...)
		item := &kmip.RequestBatchItem{Operation: kmip.OPERATION_DISCOVER_VERSIONS, RequestPayload: kmip.DiscoverVersionsRequest{ProtocolVersions: in}}
		resp, err := h(&kmip.RequestContext{}, item)
		r.eval(fmt.Sprintf("alias %s %s", verStr(sup), verStr(offer)), len(offer) > 0)
		r.Stats["in-process-alias-probes"]++
		p, ok := resp.(kmip.DiscoverVersionsResponse)
		if err != nil || !ok {
			r.find(Finding{Kind: "violation", What: "built-in Discover Versions handler failed in process", Input: map[string]string{"supported": verStr(sup), "offer": verStr(offer)}, Actual: fmt.Sprint(resp, err)})
			return
		}
		what := ""
		switch {
		case sharesBacking(p.ProtocolVersions, s.SupportedVersions):
			what = "the reply's version list shares its backing array with Server.SupportedVersions"
		case sharesBacking(p.ProtocolVersions, kmip.DefaultSupportedVersions):
			what = "the reply's version list shares its backing array with DefaultSupportedVersions"
		}
		// the consumer: overwrite, then append through the full capacity
		full := p.ProtocolVersions[:cap(p.ProtocolVersions)]
		for i := range full {
			full[i] = kmip.ProtocolVersion{Major: 9, Minor: int32(9 + i)}
		}
		_ = append(p.ProtocolVersions, kmip.ProtocolVersion{Major: 8, Minor: 8})
		if what == "" && !reflect.DeepEqual(s.SupportedVersions, before) {
			what = "writing to the reply changed Server.SupportedVersions"
		}
		if what == "" && !reflect.DeepEqual(kmip.DefaultSupportedVersions, defBefore) {
			what = "writing to the reply changed DefaultSupportedVersions"
		}
		if !reflect.DeepEqual(in, offer) {
			what = "the handler modified the offer it was given"
		}
		if what != "" {
			r.find(Finding{Kind: "violation", What: what, Input: map[string]string{"supported": verStr(sup), "offer": verStr(offer)},
				Expect: "configuration " + verStr(before), Actual: "configuration now " + verStr(s.SupportedVersions) + ", defaults " + verStr(kmip.DefaultSupportedVersions)})
			copy(s.SupportedVersions, before)
			copy(kmip.DefaultSupportedVersions, defBefore)
			return
		}
	}
}
