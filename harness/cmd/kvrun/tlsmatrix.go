package main

import (
	"context"
	"crypto/tls"
	"crypto/x509"
	"fmt"
	"net"
	"strings"
	"sync"
	"sync/atomic"
	"time"

	kmip "github.com/smira/go-kmip"

	"kvharness/internal/drv"
	"kvharness/internal/rec"
	"kvharness/internal/tlsm"
)

// ---- C16: TLS peer matrix ------------------------------------------------------------------------------------

func init() { props["C16"] = runC16 }

var tlsVersions = []struct {
	name string
	v    uint16
}{{"1.0", tls.VersionTLS10}, {"1.1", tls.VersionTLS11}, {"1.2", tls.VersionTLS12}, {"1.3", tls.VersionTLS13}}

var certKinds = []string{"none", "valid", "selfSigned", "otherCA", "expired", "wrongHost",
	// chains padded with certificates the peer holds no key for (TLS proves possession of the FIRST certificate's key only):
	// its own self-signed / foreign-CA leaf followed by a copy of a genuine client leaf, of a genuine server leaf, of the CA
	"selfSigned+genuineLeaf", "selfSigned+genuineServerLeaf", "selfSigned+caCert", "otherCA+genuineLeaf",
	// and a genuine leaf followed by junk, which stays acceptable
	"valid+selfSigned"}

func leafFor(kind string, ca, other *tlsm.CA, host string, client bool) *tls.Certificate {
	var c tls.Certificate
	switch kind {
	case "none":
		return nil
	case "valid":
		c = tlsm.Leaf(ca, tlsm.LeafOpts{Host: host, Client: client})
	case "selfSigned":
		c = tlsm.Leaf(ca, tlsm.LeafOpts{Host: host, SelfSigned: true, Client: client})
	case "otherCA":
		c = tlsm.Leaf(other, tlsm.LeafOpts{Host: host, Client: client})
	case "expired":
		c = tlsm.Leaf(ca, tlsm.LeafOpts{Host: host, Expired: true, Client: client})
	case "wrongHost":
		c = tlsm.Leaf(ca, tlsm.LeafOpts{Host: "some.other.host", Client: client})
	case "selfSigned+genuineLeaf":
		c = tlsm.Leaf(ca, tlsm.LeafOpts{Host: host, SelfSigned: true, Client: client})
		c.Certificate = append(c.Certificate, tlsm.Leaf(ca, tlsm.LeafOpts{Host: host, Client: client}).Certificate[0])
	case "selfSigned+genuineServerLeaf":
		c = tlsm.Leaf(ca, tlsm.LeafOpts{Host: host, SelfSigned: true, Client: client})
		c.Certificate = append(c.Certificate, tlsm.Leaf(ca, tlsm.LeafOpts{Host: "kmip.test"}).Certificate[0])
	case "selfSigned+caCert":
		c = tlsm.Leaf(ca, tlsm.LeafOpts{Host: host, SelfSigned: true, Client: client})
		c.Certificate = append(c.Certificate, ca.Cert.Raw)
	case "otherCA+genuineLeaf":
		c = tlsm.Leaf(other, tlsm.LeafOpts{Host: host, Client: client})
		c.Certificate = append(c.Certificate, tlsm.Leaf(ca, tlsm.LeafOpts{Host: host, Client: client}).Certificate[0])
	case "valid+selfSigned":
		c = tlsm.Leaf(ca, tlsm.LeafOpts{Host: host, Client: client})
		c.Certificate = append(c.Certificate, tlsm.Leaf(ca, tlsm.LeafOpts{Host: "junk.test", SelfSigned: true, Client: client}).Certificate[0])
	}
	return &c
}

// c16ServerPrep: how the Server's configuration is prepared. Normally DefaultServerTLSConfig alone; a process that is KMIP
// server and KMIP client at once (a proxy, a cluster peer) with ONE configuration for both roles runs it through both helpers,
// in either order - it still "was prepared by DefaultServerTLSConfig".
var c16ServerPrep = func(cfg *tls.Config) { kmip.DefaultServerTLSConfig(cfg) }

// attackServer: a peer with the given certificate / max version (or plaintext) talks to a Server prepared by DefaultServerTLSConfig.
// Returns what ran on the server and whether a KMIP response came back.
// attackCipherSuites: the cipher suites the attacking client offers (nil: crypto/tls's defaults); set by c16LegacyCiphers only
var attackCipherSuites []uint16

func attackServer(ca, other *tlsm.CA, serverCert tls.Certificate, certKind string, maxVer uint16, plaintext bool, timeout time.Duration, probe string) (events string, gotResponse bool, err error) {
	cfg := &tls.Config{Certificates: []tls.Certificate{serverCert}, ClientCAs: ca.Pool,
		MinVersion: tls.VersionTLS10, ClientAuth: tls.NoClientCert} // weak prior contents: the defaults must override them
	c16ServerPrep(cfg)
	var sa, ra, calls int32
	s := &kmip.Server{TLSConfig: cfg, ReadTimeout: timeout, WriteTimeout: timeout}
	s.SessionAuthHandler = func(c net.Conn) (interface{}, error) { atomic.AddInt32(&sa, 1); return nil, nil }
	s.RequestAuthHandler = func(sc *kmip.SessionContext, a *kmip.Authentication) (interface{}, error) {
		atomic.AddInt32(&ra, 1)
		return nil, nil
	}
	s.Handle(kmip.OPERATION_ACTIVATE, func(ctx *kmip.RequestContext, item *kmip.RequestBatchItem) (interface{}, error) {
		atomic.AddInt32(&calls, 1)
		return kmip.ActivateResponse{UniqueIdentifier: "x"}, nil
	})
	sc, cc := rec.Pipe()
	rc := rec.NewConn(sc, 1)
	l := rec.NewListener()
	l.Push(rec.AcceptStep{Conn: tls.Server(rc, cfg)}) // what tls.Listen would hand to Serve
	init := make(chan struct{})
	ret := make(chan error, 1)
	go func() { ret <- s.Serve(l, init) }()
	<-init
	req := kmip.Request{Header: kmip.RequestHeader{Version: kmip.ProtocolVersion{Major: 1, Minor: 4}, BatchCount: 1,
		Authentication: kmip.Authentication{CredentialType: kmip.CREDENTIAL_TYPE_USERNAME_AND_PASSWORD, CredentialValue: kmip.CredentialUsernamePassword{Username: "u", Password: "p"}}},
		BatchItems: []kmip.RequestBatchItem{{Operation: kmip.OPERATION_ACTIVATE, RequestPayload: kmip.ActivateRequest{UniqueIdentifier: "a"}}}}
	_ = cc.SetDeadline(time.Now().Add(3 * time.Second))
	var conn net.Conn = cc
	if probe != "" {
		// a scanner / health check: connects, sends nothing (or the first bytes of a TLS record) and goes away
		if probe == "partial-hello" {
			_, _ = cc.Write([]byte{0x16, 0x03, 0x01, 0x02, 0x00, 0x01})
		}
		cc.Close()
		select {
		case <-rc.Closed():
		case <-time.After(5 * time.Second):
			err = fmt.Errorf("server did not close the connection")
		}
		ctx, cancel := context.WithTimeout(context.Background(), 5*time.Second)
		defer cancel()
		if e := s.Shutdown(ctx); e != nil {
			err = fmt.Errorf("shutdown: %v", e)
		}
		<-ret
		events = fmt.Sprintf("sessionAuth=%d requestAuth=%d handler=%d", atomic.LoadInt32(&sa), atomic.LoadInt32(&ra), atomic.LoadInt32(&calls))
		return
	}
	if !plaintext {
		ccfg := &tls.Config{RootCAs: ca.Pool, ServerName: "kmip.test", MinVersion: tls.VersionTLS10, MaxVersion: maxVer, CipherSuites: attackCipherSuites}
		if leaf := leafFor(certKind, ca, other, "client.test", true); leaf != nil {
			// an attacker presents its certificate whatever issuers the server says it accepts
			ccfg.GetClientCertificate = func(*tls.CertificateRequestInfo) (*tls.Certificate, error) { return leaf, nil }
		}
		tc := tls.Client(cc, ccfg)
		_ = tc.Handshake() // with TLS 1.3 a rejected client certificate only shows on the first read
		conn = tc
	}
	if e := kmip.NewEncoder(conn).Encode(&req); e == nil {
		var resp kmip.Response
		if e := kmip.NewDecoder(conn).Decode(&resp); e == nil && len(resp.BatchItems) == 1 {
			gotResponse = true
		}
	}
	cc.Close()
	select {
	case <-rc.Closed():
	case <-time.After(5 * time.Second):
		err = fmt.Errorf("server did not close the connection")
	}
	ctx, cancel := context.WithTimeout(context.Background(), 5*time.Second)
	defer cancel()
	if e := s.Shutdown(ctx); e != nil {
		err = fmt.Errorf("shutdown: %v", e)
	}
	<-ret
	events = fmt.Sprintf("sessionAuth=%d requestAuth=%d handler=%d", atomic.LoadInt32(&sa), atomic.LoadInt32(&ra), atomic.LoadInt32(&calls))
	return
}

// impersonate: a kmip.Client prepared by DefaultClientTLSConfig connects to a TLS server with the given certificate / max version.
// Returns whether Connect succeeded and how many application bytes the impostor received.
func impersonate(ca, other *tlsm.CA, certKind string, maxVer uint16) (connected bool, appBytes int, err error) {
	leaf := leafFor(certKind, ca, other, "127.0.0.1", false)
	scfg := &tls.Config{MinVersion: tls.VersionTLS10, MaxVersion: maxVer}
	if leaf != nil {
		scfg.Certificates = []tls.Certificate{*leaf}
	} else {
		return false, 0, nil // a TLS server cannot be without a certificate; "none" is not a server-side case
	}
	ln, e := tls.Listen("tcp", "127.0.0.1:0", scfg)
	if e != nil {
		return false, 0, e
	}
	defer ln.Close()
	var got int32
	var wg sync.WaitGroup
	wg.Add(1)
	go func() {
		defer wg.Done()
		c, e := ln.Accept()
		if e != nil {
			return
		}
		defer c.Close()
		_ = c.SetDeadline(time.Now().Add(2 * time.Second))
		buf := make([]byte, 4096)
		for {
			n, e := c.Read(buf)
			atomic.AddInt32(&got, int32(n))
			if e != nil {
				return
			}
		}
	}()
	ccfg := &tls.Config{RootCAs: ca.Pool, MinVersion: tls.VersionTLS10} // weak prior contents
	kmip.DefaultClientTLSConfig(ccfg)
	cl := &kmip.Client{Endpoint: ln.Addr().String(), TLSConfig: ccfg, ReadTimeout: time.Second, WriteTimeout: time.Second}
	if e := cl.Connect(); e == nil {
		connected = true
		_, _ = cl.DiscoverVersions(nil)
	} else {
		// a client that is not connected must refuse to send
		if _, e2 := cl.Send(kmip.OPERATION_DISCOVER_VERSIONS, kmip.DiscoverVersionsRequest{}); e2 == nil {
			err = fmt.Errorf("Send succeeded although Connect failed")
		}
	}
	cl.Close()
	ln.Close()
	wg.Wait()
	return connected, int(atomic.LoadInt32(&got)), err
}

func runC16(r *Result, d *drv.Driver, tier string, seed int64, replay string) {
	defer c16Sequences(r)
	defer c16ChainTrust(r)
	defer c16Expiry(r)
	defer c16LegacyCiphers(r)
	defer c16CertificateSources(r)
	defer c16TicketForgery(r)
	r.Rule = "exhaustive peer matrix against the real crypto/tls: a peer with certificate in {none, valid, self-signed, other CA, expired, wrong host, its own self-signed or foreign-CA leaf followed by a copy of a genuine client leaf / genuine server leaf / the CA certificate, a genuine leaf followed by junk} x max TLS version in {1.0, 1.1, 1.2, 1.3}, plus a plaintext peer, a peer that connects and leaves without sending anything, and one that leaves after the first bytes of a TLS record, " +
		"attacks a Server (with read/write timeouts 2s, and with none) whose config (weak prior contents) went through DefaultServerTLSConfig (alone; and, for a configuration shared by both roles, followed or preceded by DefaultClientTLSConfig) - observed: session-auth / request-auth / handler invocations and whether a KMIP response came back; and a TLS server with each certificate x version impersonates towards a Client prepared by DefaultClientTLSConfig - observed: Connect result and application bytes received. Expected outcome = the model's handshake predicate. Plus client sequences: a trusting Client first, then a Client trusting only another CA against the same endpoint (TLS 1.2 and 1.3); a Server started by ListenAndServe whose own certificate chain (leaf + issuing CA, as servers are usually configured) comes from another CA than the one its clients must chain to: clients with a certificate from the client CA / from the server's issuing CA / self-signed / none (TLS 1.2 and 1.3, first and second start on the same configuration); and an outsider presenting a session ticket forged with keys the library itself yields for the server's public chain (ListenAndServe path). distinct = one per matrix cell"
	r.Exhaustive = true
	ca, other := tlsm.NewCA("kmip-test-ca"), tlsm.NewCA("foreign-ca")
	serverCert := tlsm.Leaf(ca, tlsm.LeafOpts{Host: "kmip.test"})
	type cell struct {
		kind      string
		ver       int
		plaintext bool
		timeout   time.Duration
		probe     string
	}
	var cells []cell
	for _, to := range []time.Duration{2 * time.Second, 0} {
		for _, k := range certKinds {
			for vi := range tlsVersions {
				cells = append(cells, cell{k, vi, false, to, ""})
			}
		}
		cells = append(cells, cell{"none", 3, true, to, ""})
		cells = append(cells, cell{"none", 3, true, to, "silent-close"})
		cells = append(cells, cell{"none", 3, true, to, "partial-hello"})
	}
	for _, c := range cells {
		key := fmt.Sprintf("attack-server cert=%s max=%s plaintext=%v server-timeouts=%v probe=%s", c.kind, tlsVersions[c.ver].name, c.plaintext, c.timeout, c.probe)
		ev, resp, err := attackServer(ca, other, serverCert, c.kind, tlsVersions[c.ver].v, c.plaintext, c.timeout, c.probe)
		r.eval(key, true)
		// model predicate (Tls.serverHandshakeOk after defaultServer): TLS >= 1.2 and a chain to the pool, within validity
		want := !c.plaintext && tlsVersions[c.ver].v >= tls.VersionTLS12 && (c.kind == "valid" || c.kind == "wrongHost" || c.kind == "valid+selfSigned")
		r.Stats[fmt.Sprintf("server-cell-served=%v", want)]++
		if len(r.Samples) < 3 && (c.kind == "selfSigned" || c.kind == "valid") && c.ver >= 2 {
			r.sample(map[string]interface{}{"cell": key, "server_events": ev, "response": resp})
		}
		if err != nil {
			r.find(Finding{Kind: "violation", What: "server misbehaved during the TLS matrix", Input: key, Actual: err.Error()})
		}
		served := ev != "sessionAuth=0 requestAuth=0 handler=0" || resp
		if !want && served {
			r.find(Finding{Kind: "violation", What: "KMIP was served to a peer without a verified TLS 1.2+ handshake", Input: key, Expect: "sessionAuth=0 requestAuth=0 handler=0, no response", Actual: fmt.Sprintf("%s response=%v", ev, resp)})
		}
		if want && (ev != "sessionAuth=1 requestAuth=1 handler=1" || !resp) {
			r.find(Finding{Kind: "disagreement", What: "a peer the TLS model admits was not served (crypto/tls assumption or harness)", Input: key, Expect: "served", Actual: fmt.Sprintf("%s response=%v", ev, resp)})
		}
	}
	// one configuration for both roles: through both helpers, in either order
	for _, prep := range []struct {
		name string
		f    func(cfg *tls.Config)
	}{
		{"DefaultServerTLSConfig then DefaultClientTLSConfig", func(cfg *tls.Config) { kmip.DefaultServerTLSConfig(cfg); kmip.DefaultClientTLSConfig(cfg) }},
		{"DefaultClientTLSConfig then DefaultServerTLSConfig", func(cfg *tls.Config) { kmip.DefaultClientTLSConfig(cfg); kmip.DefaultServerTLSConfig(cfg) }},
		// the order the library's own tests use: helper first, pool afterwards - the pool is what the configuration is
		// served with, whenever it was put there
		{"DefaultServerTLSConfig first, ClientCAs assigned afterwards", func(cfg *tls.Config) {
			pool := cfg.ClientCAs
			cfg.ClientCAs = nil
			kmip.DefaultServerTLSConfig(cfg)
			cfg.ClientCAs = pool
		}},
	} {
		c16ServerPrep = prep.f
		for _, k := range []string{"none", "valid", "selfSigned", "otherCA", "expired"} {
			for _, vi := range []int{1, 2, 3} {
				key := fmt.Sprintf("attack-server (configuration shared by both roles: %s) cert=%s max=%s", prep.name, k, tlsVersions[vi].name)
				ev, resp, err := attackServer(ca, other, serverCert, k, tlsVersions[vi].v, false, 2*time.Second, "")
				r.eval(key, true)
				want := tlsVersions[vi].v >= tls.VersionTLS12 && k == "valid"
				if err != nil {
					r.find(Finding{Kind: "violation", What: "server misbehaved during the TLS matrix", Input: key, Actual: err.Error()})
				}
				served := ev != "sessionAuth=0 requestAuth=0 handler=0" || resp
				if !want && served {
					r.find(Finding{Kind: "violation", What: "KMIP was served to a peer without a verified TLS 1.2+ handshake (configuration prepared in another order, see the input)", Input: key, Expect: "sessionAuth=0 requestAuth=0 handler=0, no response", Actual: fmt.Sprintf("%s response=%v", ev, resp)})
				}
				if want && !served {
					r.find(Finding{Kind: "disagreement", What: "a peer the TLS model admits was not served (crypto/tls assumption or harness)", Input: key, Expect: "served", Actual: fmt.Sprintf("%s response=%v", ev, resp)})
				}
				r.Stats["shared-configuration-cells"]++
			}
		}
	}
	c16ServerPrep = func(cfg *tls.Config) { kmip.DefaultServerTLSConfig(cfg) }
	for _, k := range certKinds {
		if k == "none" {
			continue
		}
		for vi := range tlsVersions {
			key := fmt.Sprintf("impersonate cert=%s max=%s", k, tlsVersions[vi].name)
			connected, app, err := impersonate(ca, other, k, tlsVersions[vi].v)
			r.eval(key, true)
			want := tlsVersions[vi].v >= tls.VersionTLS12 && (k == "valid" || k == "valid+selfSigned")
			r.Stats[fmt.Sprintf("client-cell-connects=%v", want)]++
			if err != nil {
				r.find(Finding{Kind: "violation", What: "client misbehaved during the TLS matrix", Input: key, Actual: err.Error()})
			}
			if !want && (connected || app > 0) {
				r.find(Finding{Kind: "violation", What: "the Client talked to a server that does not verify or negotiates below TLS 1.2", Input: key, Expect: "Connect fails, no request bytes", Actual: fmt.Sprintf("connected=%v app_bytes=%d", connected, app)})
			}
			if want && !connected {
				r.find(Finding{Kind: "disagreement", What: "a server the TLS model admits was refused by the Client", Input: key, Expect: "connected", Actual: "refused"})
			}
		}
	}
}

// c16Sequences: what one Client does must not weaken the next one. A first Client (trusting the server's CA) connects and
// completes an exchange; then a second Client, prepared by DefaultClientTLSConfig from a config that trusts only ANOTHER CA,
// connects to the same endpoint: it must refuse the server exactly as it would on first contact (no state shared between
// configurations - session caches, verified chains - may let it skip verification).
func c16Sequences(r *Result) {
	ca, other := tlsm.NewCA("kmip-seq-ca"), tlsm.NewCA("other-seq-ca")
	for _, v := range []struct {
		name string
		max  uint16
	}{{"1.2", tls.VersionTLS12}, {"1.3", tls.VersionTLS13}} {
		key := "client-sequence max=" + v.name + ": trusting client first, then a client trusting only another CA, same endpoint"
		r.eval(key, true)
		scfg := &tls.Config{Certificates: []tls.Certificate{tlsm.Leaf(ca, tlsm.LeafOpts{Host: "127.0.0.1"})}, ClientCAs: ca.Pool, MaxVersion: v.max}
		kmip.DefaultServerTLSConfig(scfg)
		ln, err := tls.Listen("tcp", "127.0.0.1:0", scfg)
		if err != nil {
			r.find(Finding{Kind: "disagreement", What: "cannot listen", Input: err.Error()})
			return
		}
		s := &kmip.Server{}
		var served int32
		s.Handle(kmip.OPERATION_ACTIVATE, func(ctx *kmip.RequestContext, item *kmip.RequestBatchItem) (interface{}, error) {
			atomic.AddInt32(&served, 1)
			return kmip.ActivateResponse{UniqueIdentifier: "x"}, nil
		})
		init := make(chan struct{})
		done := make(chan error, 1)
		go func() { done <- s.Serve(ln, init) }()
		<-init
		clientCert := tlsm.Leaf(ca, tlsm.LeafOpts{Host: "client", Client: true})
		mk := func(pool *tlsm.CA) *kmip.Client {
			cfg := &tls.Config{RootCAs: pool.Pool, Certificates: []tls.Certificate{clientCert}}
			kmip.DefaultClientTLSConfig(cfg)
			return &kmip.Client{Endpoint: ln.Addr().String(), TLSConfig: cfg, ReadTimeout: 2 * time.Second, WriteTimeout: 2 * time.Second}
		}
		good := mk(ca)
		obs := ""
		if err := good.Connect(); err != nil {
			obs = "first client could not connect: " + err.Error()
		} else {
			for i := 0; i < 2; i++ { // (under TLS 1.3 the ticket arrives with the first application data)
				_, _ = good.Send(kmip.OPERATION_ACTIVATE, kmip.ActivateRequest{UniqueIdentifier: "a"})
			}
			good.Close()
		}
		before := atomic.LoadInt32(&served)
		bad := mk(other)
		err = bad.Connect()
		if err == nil {
			_, _ = bad.Send(kmip.OPERATION_ACTIVATE, kmip.ActivateRequest{UniqueIdentifier: "a"})
		}
		bad.Close()
		obs += fmt.Sprintf("second-client-connected=%v requests-it-got-served=%d", err == nil, atomic.LoadInt32(&served)-before)
		if obs != "second-client-connected=false requests-it-got-served=0" {
			r.find(Finding{Kind: "violation", What: "a Client talked to a server whose certificate does not verify against its own root pool (after another Client had connected there)", Input: key,
				Expect: "second-client-connected=false requests-it-got-served=0", Actual: obs})
		}
		ctx, cancel := context.WithTimeout(context.Background(), 5*time.Second)
		_ = s.Shutdown(ctx)
		cancel()
		<-done
		r.Stats["client-sequence-scenarios"]++
	}
	// one *tls.Config shared by two Clients (ServerName left empty, as DefaultClientTLSConfig leaves it): the certificate is valid
	// for "localhost" only; the first Client dials localhost:port, the second 127.0.0.1:port and must be refused (wrong host),
	// whatever the first connection did to the shared configuration
	{
		key := "shared client config: first Client dials localhost (certificate valid for it), second dials 127.0.0.1 (not valid)"
		r.eval(key, true)
		scfg := &tls.Config{Certificates: []tls.Certificate{tlsm.Leaf(ca, tlsm.LeafOpts{Host: "localhost"})}, ClientCAs: ca.Pool}
		kmip.DefaultServerTLSConfig(scfg)
		ln, err := tls.Listen("tcp", "127.0.0.1:0", scfg)
		if err != nil {
			r.find(Finding{Kind: "disagreement", What: "cannot listen", Input: err.Error()})
			return
		}
		s := &kmip.Server{}
		var served int32
		s.Handle(kmip.OPERATION_ACTIVATE, func(ctx *kmip.RequestContext, item *kmip.RequestBatchItem) (interface{}, error) {
			atomic.AddInt32(&served, 1)
			return kmip.ActivateResponse{UniqueIdentifier: "x"}, nil
		})
		init := make(chan struct{})
		done := make(chan error, 1)
		go func() { done <- s.Serve(ln, init) }()
		<-init
		_, port, _ := net.SplitHostPort(ln.Addr().String())
		shared := &tls.Config{RootCAs: ca.Pool, Certificates: []tls.Certificate{tlsm.Leaf(ca, tlsm.LeafOpts{Host: "client", Client: true})}}
		kmip.DefaultClientTLSConfig(shared)
		first := &kmip.Client{Endpoint: "localhost:" + port, TLSConfig: shared, ReadTimeout: 2 * time.Second, WriteTimeout: 2 * time.Second}
		obs := ""
		if err := first.Connect(); err != nil {
			obs = "(first client could not connect to localhost: " + err.Error() + ") "
		} else {
			_, _ = first.Send(kmip.OPERATION_ACTIVATE, kmip.ActivateRequest{UniqueIdentifier: "a"})
			first.Close()
		}
		before := atomic.LoadInt32(&served)
		second := &kmip.Client{Endpoint: "127.0.0.1:" + port, TLSConfig: shared, ReadTimeout: 2 * time.Second, WriteTimeout: 2 * time.Second}
		err = second.Connect()
		if err == nil {
			_, _ = second.Send(kmip.OPERATION_ACTIVATE, kmip.ActivateRequest{UniqueIdentifier: "a"})
		}
		second.Close()
		obs += fmt.Sprintf("second-client-connected=%v requests-it-got-served=%d", err == nil, atomic.LoadInt32(&served)-before)
		if !strings.HasSuffix(obs, "second-client-connected=false requests-it-got-served=0") || strings.HasPrefix(obs, "(") {
			kind := "violation"
			if strings.HasPrefix(obs, "(") {
				kind = "disagreement" // localhost does not resolve here: the scenario says nothing
			}
			r.find(Finding{Kind: kind, What: "a Client talked to a server whose certificate is not valid for the host it dialled (shared tls.Config)", Input: key,
				Expect: "second-client-connected=false requests-it-got-served=0", Actual: obs})
		}
		ctx, cancel := context.WithTimeout(context.Background(), 5*time.Second)
		_ = s.Shutdown(ctx)
		cancel()
		<-done
		r.Stats["client-sequence-scenarios"]++
	}
}

func freeAddr() string {
	l, err := net.Listen("tcp", "127.0.0.1:0")
	if err != nil {
		return "127.0.0.1:0"
	}
	defer l.Close()
	return l.Addr().String()
}

// c16TicketForgery: session resumption must not become a way around certificate verification. An outsider who has nothing but
// the server's PUBLIC certificate chain lets the library itself prepare a tls.Config for that chain (the same
// Server.ListenAndServe path, with a key of the outsider's own), clones that configuration into a TLS server of its own which
// trusts the outsider's self-made CA, obtains a session ticket there, and presents the ticket to the real KMIP server. If
// anything the library does to a configuration makes its ticket keys a function of public data, the real server resumes the
// forged session - client certificate "already verified" - and serves KMIP. Expected: full handshake, certificate refused.
func c16TicketForgery(r *Result) {
	ca, evil := tlsm.NewCA("kmip-ticket-ca"), tlsm.NewCA("outsider-ca")
	serverCert := tlsm.Leaf(ca, tlsm.LeafOpts{Host: "kmip.test"})
	evilServer := tlsm.Leaf(evil, tlsm.LeafOpts{Host: "kmip.test"})
	evilClient := tlsm.Leaf(evil, tlsm.LeafOpts{Host: "client.test", Client: true})
	for _, v := range []struct {
		name string
		max  uint16
	}{{"1.2", tls.VersionTLS12}, {"1.3", tls.VersionTLS13}} {
		key := "forged session ticket (keys obtained by running the library's own ListenAndServe on the server's public chain), TLS " + v.name
		r.eval(key, true)
		// the real server
		cfgV := &tls.Config{Certificates: []tls.Certificate{serverCert}, ClientCAs: ca.Pool}
		kmip.DefaultServerTLSConfig(cfgV)
		var sa, calls int32
		victim := &kmip.Server{Addr: freeAddr(), TLSConfig: cfgV, ReadTimeout: 2 * time.Second, WriteTimeout: 2 * time.Second}
		victim.SessionAuthHandler = func(c net.Conn) (interface{}, error) { atomic.AddInt32(&sa, 1); return nil, nil }
		victim.Handle(kmip.OPERATION_ACTIVATE, func(ctx *kmip.RequestContext, item *kmip.RequestBatchItem) (interface{}, error) {
			atomic.AddInt32(&calls, 1)
			return kmip.ActivateResponse{UniqueIdentifier: "x"}, nil
		})
		initV := make(chan struct{})
		retV := make(chan error, 1)
		go func() { retV <- victim.ListenAndServe(initV) }()
		<-initV
		// the outsider: the library prepares a configuration for the PUBLIC chain (private key: the outsider's own)
		cfgA := &tls.Config{Certificates: []tls.Certificate{{Certificate: serverCert.Certificate, PrivateKey: evilServer.PrivateKey}}, ClientCAs: evil.Pool}
		kmip.DefaultServerTLSConfig(cfgA)
		oracle := &kmip.Server{Addr: freeAddr(), TLSConfig: cfgA}
		initA := make(chan struct{})
		retA := make(chan error, 1)
		go func() { retA <- oracle.ListenAndServe(initA) }()
		<-initA
		ctx, cancel := context.WithTimeout(context.Background(), 3*time.Second)
		_ = oracle.Shutdown(ctx)
		cancel()
		select {
		case <-retA:
		case <-time.After(3 * time.Second):
		}
		// ... and is cloned into the outsider's own TLS server, which trusts the outsider's CA
		cfgB := cfgA.Clone()
		cfgB.Certificates = []tls.Certificate{evilServer}
		cfgB.ClientCAs = evil.Pool
		cfgB.ClientAuth = tls.RequireAndVerifyClientCert
		lnB, err := tls.Listen("tcp", "127.0.0.1:0", cfgB)
		if err != nil {
			r.find(Finding{Kind: "disagreement", What: "cannot start the outsider's TLS server", Input: key, Actual: err.Error()})
			continue
		}
		go func() {
			for {
				c, e := lnB.Accept()
				if e != nil {
					return
				}
				go func(c net.Conn) {
					defer c.Close()
					_ = c.SetDeadline(time.Now().Add(2 * time.Second))
					if tc, ok := c.(*tls.Conn); ok && tc.Handshake() == nil {
						_, _ = c.Write([]byte("hello"))
						buf := make([]byte, 16)
						_, _ = c.Read(buf)
					}
				}(c)
			}
		}()
		pool := x509.NewCertPool()
		pool.AddCert(ca.Cert)
		pool.AddCert(evil.Cert)
		ccfg := &tls.Config{RootCAs: pool, ServerName: "kmip.test", Certificates: []tls.Certificate{evilClient}, ClientSessionCache: tls.NewLRUClientSessionCache(8),
			MinVersion: tls.VersionTLS12, MaxVersion: v.max}
		gotTicket := false
		if c, e := tls.Dial("tcp", lnB.Addr().String(), ccfg); e == nil {
			buf := make([]byte, 16)
			_ = c.SetDeadline(time.Now().Add(2 * time.Second))
			_, _ = c.Read(buf) // TLS 1.3 delivers the ticket with the first application data
			_, _ = c.Write([]byte("bye"))
			c.Close()
			gotTicket = true
		}
		lnB.Close()
		// the attack
		obs := fmt.Sprintf("ticket-obtained=%v ", gotTicket)
		served := false
		if c, e := tls.Dial("tcp", victim.Addr, ccfg); e == nil {
			_ = c.SetDeadline(time.Now().Add(2 * time.Second))
			obs += fmt.Sprintf("handshake=ok resumed=%v ", c.ConnectionState().DidResume)
			req := kmip.Request{Header: kmip.RequestHeader{Version: kmip.ProtocolVersion{Major: 1, Minor: 4}, BatchCount: 1},
				BatchItems: []kmip.RequestBatchItem{{Operation: kmip.OPERATION_ACTIVATE, RequestPayload: kmip.ActivateRequest{UniqueIdentifier: "a"}}}}
			if e := kmip.NewEncoder(c).Encode(&req); e == nil {
				var resp kmip.Response
				if e := kmip.NewDecoder(c).Decode(&resp); e == nil {
					served = true
				}
			}
			c.Close()
		} else {
			obs += "handshake refused "
		}
		time.Sleep(50 * time.Millisecond)
		obs += fmt.Sprintf("sessionAuth=%d handler=%d response=%v", atomic.LoadInt32(&sa), atomic.LoadInt32(&calls), served)
		if served || atomic.LoadInt32(&sa) != 0 || atomic.LoadInt32(&calls) != 0 {
			r.find(Finding{Kind: "violation", What: "KMIP was served to a peer holding no certificate from the server's client CA (resumed from a forged session ticket)", Input: key,
				Expect: "sessionAuth=0 handler=0 response=false", Actual: obs})
		}
		ctx2, cancel2 := context.WithTimeout(context.Background(), 3*time.Second)
		_ = victim.Shutdown(ctx2)
		cancel2()
		select {
		case <-retV:
		case <-time.After(3 * time.Second):
		}
		r.Stats["ticket-forgery-scenarios"]++
	}
}

// c16ChainTrust: who may connect is decided by ClientCAs alone. The server's own certificate comes - as it usually does - with
// its chain (leaf followed by the issuing CA), and that CA is NOT the one client certificates must chain to. Through the
// ListenAndServe path (everything the library does to the configuration on the way is included): a client holding a
// certificate of the client CA is served; one holding a certificate issued by the server's CA, a self-signed one or none is not.
// The server is started twice on the same configuration (whatever start-up does to it must not accumulate either).
func c16ChainTrust(r *Result) {
	serverCA, clientCA := tlsm.NewCA("server-issuing-ca"), tlsm.NewCA("client-ca")
	serverCert := tlsm.Leaf(serverCA, tlsm.LeafOpts{Host: "kmip.test"})
	serverCert.Certificate = append(serverCert.Certificate, serverCA.Cert.Raw)
	cfg := &tls.Config{Certificates: []tls.Certificate{serverCert}, ClientCAs: clientCA.Pool}
	kmip.DefaultServerTLSConfig(cfg)
	clients := []struct {
		name string
		cert *tls.Certificate
		ok   bool
	}{
		{"certificate issued by the client CA (ClientCAs)", func() *tls.Certificate {
			c := tlsm.Leaf(clientCA, tlsm.LeafOpts{Host: "client.test", Client: true})
			return &c
		}(), true},
		{"certificate issued by the CA of the server's own chain (not in ClientCAs)", func() *tls.Certificate {
			c := tlsm.Leaf(serverCA, tlsm.LeafOpts{Host: "client.test", Client: true})
			return &c
		}(), false},
		{"that certificate followed by the CA certificate", func() *tls.Certificate {
			c := tlsm.Leaf(serverCA, tlsm.LeafOpts{Host: "client.test", Client: true})
			c.Certificate = append(c.Certificate, serverCA.Cert.Raw)
			return &c
		}(), false},
		{"self-signed certificate", func() *tls.Certificate {
			c := tlsm.Leaf(clientCA, tlsm.LeafOpts{Host: "client.test", SelfSigned: true, Client: true})
			return &c
		}(), false},
		{"no certificate", nil, false},
	}
	for start := 1; start <= 2; start++ {
		var sa, calls int32
		s := &kmip.Server{Addr: freeAddr(), TLSConfig: cfg, ReadTimeout: 2 * time.Second, WriteTimeout: 2 * time.Second}
		s.SessionAuthHandler = func(c net.Conn) (interface{}, error) { atomic.AddInt32(&sa, 1); return nil, nil }
		s.Handle(kmip.OPERATION_ACTIVATE, func(ctx *kmip.RequestContext, item *kmip.RequestBatchItem) (interface{}, error) {
			atomic.AddInt32(&calls, 1)
			return kmip.ActivateResponse{UniqueIdentifier: "x"}, nil
		})
		init := make(chan struct{})
		ret := make(chan error, 1)
		go func() { ret <- s.ListenAndServe(init) }()
		<-init
		for _, v := range []struct {
			name string
			max  uint16
		}{{"1.2", tls.VersionTLS12}, {"1.3", tls.VersionTLS13}} {
			for _, cl := range clients {
				key := fmt.Sprintf("ListenAndServe (start #%d on this configuration), server chain = leaf + its issuing CA, ClientCAs = a different CA; client with %s, TLS %s", start, cl.name, v.name)
				crumb("C16 " + key)
				r.eval(key, true)
				atomic.StoreInt32(&sa, 0)
				atomic.StoreInt32(&calls, 0)
				pool := x509.NewCertPool()
				pool.AddCert(serverCA.Cert)
				ccfg := &tls.Config{RootCAs: pool, ServerName: "kmip.test", MinVersion: tls.VersionTLS12, MaxVersion: v.max}
				if cl.cert != nil {
					ccfg.Certificates = []tls.Certificate{*cl.cert}
				}
				served := false
				obs := ""
				if c, e := tls.Dial("tcp", s.Addr, ccfg); e == nil {
					_ = c.SetDeadline(time.Now().Add(2 * time.Second))
					req := kmip.Request{Header: kmip.RequestHeader{Version: kmip.ProtocolVersion{Major: 1, Minor: 4}, BatchCount: 1},
						BatchItems: []kmip.RequestBatchItem{{Operation: kmip.OPERATION_ACTIVATE, RequestPayload: kmip.ActivateRequest{UniqueIdentifier: "a"}}}}
					if e := kmip.NewEncoder(c).Encode(&req); e == nil {
						var resp kmip.Response
						if e := kmip.NewDecoder(c).Decode(&resp); e == nil && len(resp.BatchItems) == 1 {
							served = true
						}
					}
					c.Close()
				} else {
					obs = "handshake refused "
				}
				time.Sleep(30 * time.Millisecond)
				obs += fmt.Sprintf("sessionAuth=%d handler=%d response=%v", atomic.LoadInt32(&sa), atomic.LoadInt32(&calls), served)
				if !cl.ok && (served || atomic.LoadInt32(&sa) != 0 || atomic.LoadInt32(&calls) != 0) {
					r.find(Finding{Kind: "violation", What: "KMIP was served to a peer whose certificate does not chain to the configured client CAs (it chains to the CA of the server's own certificate)", Input: key,
						Expect: "sessionAuth=0 handler=0 response=false", Actual: obs})
				}
				if cl.ok && !served {
					r.find(Finding{Kind: "disagreement", What: "a client with a certificate of the configured client CA was not served (crypto/tls assumption or harness)", Input: key, Expect: "served", Actual: obs})
				}
				r.Stats["chain-trust-scenarios"]++
			}
		}
		ctx, cancel := context.WithTimeout(context.Background(), 3*time.Second)
		_ = s.Shutdown(ctx)
		cancel()
		select {
		case <-ret:
		case <-time.After(3 * time.Second):
		}
	}
}

// c16Expiry: "expired" is judged at the time of the handshake, not at the time the configuration was prepared. A certificate
// that is still valid when DefaultServerTLSConfig / DefaultClientTLSConfig run and when a first connection is made (which is
// served - the scenario checks itself) has expired a few seconds later: from then on a peer presenting it is an "expired" peer
// like any other - no callback, no handler, no response on the server side; no request sent on the client side.
func c16Expiry(r *Result) {
	ca := tlsm.NewCA("c16-expiry-ca")
	const life = 4 * time.Second
	shortClient := tlsm.Leaf(ca, tlsm.LeafOpts{Host: "client.test", Client: true, ValidFor: life})
	shortServer := tlsm.Leaf(ca, tlsm.LeafOpts{Host: "kmip.test", ValidFor: life})
	longServer := tlsm.Leaf(ca, tlsm.LeafOpts{Host: "kmip.test"})
	longClient := tlsm.Leaf(ca, tlsm.LeafOpts{Host: "client.test", Client: true})
	issued := time.Now()
	// role 1: the library's Server, prepared now, meets a client whose certificate expires
	scfg := &tls.Config{Certificates: []tls.Certificate{longServer}, ClientCAs: ca.Pool}
	c16ServerPrep(scfg)
	// role 2: the library's Client configuration, prepared now, meets a server whose certificate expires
	ccfg := &tls.Config{RootCAs: ca.Pool, ServerName: "kmip.test", Certificates: []tls.Certificate{longClient}}
	kmip.DefaultClientTLSConfig(ccfg)
	peerCfg := &tls.Config{Certificates: []tls.Certificate{shortServer}, ClientCAs: ca.Pool, ClientAuth: tls.RequireAndVerifyClientCert}

	serverRole := func() string {
		var sa, ra, calls int32
		s := &kmip.Server{TLSConfig: scfg, ReadTimeout: 2 * time.Second, WriteTimeout: 2 * time.Second}
		s.SessionAuthHandler = func(c net.Conn) (interface{}, error) { atomic.AddInt32(&sa, 1); return nil, nil }
		s.RequestAuthHandler = func(sc *kmip.SessionContext, a *kmip.Authentication) (interface{}, error) {
			atomic.AddInt32(&ra, 1)
			return nil, nil
		}
		s.Handle(kmip.OPERATION_ACTIVATE, func(ctx *kmip.RequestContext, item *kmip.RequestBatchItem) (interface{}, error) {
			atomic.AddInt32(&calls, 1)
			return kmip.ActivateResponse{UniqueIdentifier: "x"}, nil
		})
		sc, cc := rec.Pipe()
		l := rec.NewListener()
		l.Push(rec.AcceptStep{Conn: tls.Server(rec.NewConn(sc, 1), scfg)})
		init := make(chan struct{})
		ret := make(chan error, 1)
		go func() { ret <- s.Serve(l, init) }()
		<-init
		_ = cc.SetDeadline(time.Now().Add(3 * time.Second))
		tc := tls.Client(cc, &tls.Config{RootCAs: ca.Pool, ServerName: "kmip.test", Certificates: []tls.Certificate{shortClient}})
		_ = tc.Handshake()
		req := kmip.Request{Header: kmip.RequestHeader{Version: kmip.ProtocolVersion{Major: 1, Minor: 4}, BatchCount: 1,
			Authentication: kmip.Authentication{CredentialType: kmip.CREDENTIAL_TYPE_USERNAME_AND_PASSWORD, CredentialValue: kmip.CredentialUsernamePassword{Username: "u", Password: "p"}}},
			BatchItems: []kmip.RequestBatchItem{{Operation: kmip.OPERATION_ACTIVATE, RequestPayload: kmip.ActivateRequest{UniqueIdentifier: "a"}}}}
		got := false
		if e := kmip.NewEncoder(tc).Encode(&req); e == nil {
			var resp kmip.Response
			if e := kmip.NewDecoder(tc).Decode(&resp); e == nil && len(resp.BatchItems) == 1 {
				got = true
			}
		}
		cc.Close()
		ctx, cancel := context.WithTimeout(context.Background(), 5*time.Second)
		_ = s.Shutdown(ctx)
		cancel()
		<-ret
		return fmt.Sprintf("sessionAuth=%d requestAuth=%d handler=%d response=%v", atomic.LoadInt32(&sa), atomic.LoadInt32(&ra), atomic.LoadInt32(&calls), got)
	}
	clientRole := func() string {
		ln, err := tls.Listen("tcp", "127.0.0.1:0", peerCfg)
		if err != nil {
			return "cannot listen: " + err.Error()
		}
		defer ln.Close()
		appBytes := make(chan int, 1)
		go func() {
			c, err := ln.Accept()
			if err != nil {
				appBytes <- 0
				return
			}
			defer c.Close()
			_ = c.SetDeadline(time.Now().Add(2 * time.Second))
			buf := make([]byte, 4096)
			n, _ := c.Read(buf)
			appBytes <- n
		}()
		cl := &kmip.Client{Endpoint: ln.Addr().String(), TLSConfig: ccfg, ReadTimeout: time.Second, WriteTimeout: time.Second}
		connected := cl.Connect() == nil
		if connected {
			_, _ = cl.Send(kmip.OPERATION_ACTIVATE, kmip.ActivateRequest{UniqueIdentifier: "a"})
			cl.Close()
		}
		n := 0
		select {
		case n = <-appBytes:
		case <-time.After(3 * time.Second):
		}
		return fmt.Sprintf("connected=%v request-bytes-received=%v", connected, n > 0)
	}
	crumb("C16 certificate expiring after the configuration was prepared")
	firstS, firstC := serverRole(), clientRole()
	if time.Since(issued) > life-1500*time.Millisecond {
		// certificate times have one-second resolution: on a machine this slow the first round may already have met the
		// expired certificate - the scenario cannot check itself, so it says nothing
		r.Stats["expiry-after-preparation-scenarios:skipped-machine-too-slow"]++
		return
	}
	if d := time.Until(issued.Add(life + 1500*time.Millisecond)); d > 0 {
		time.Sleep(d)
	}
	thenS, thenC := serverRole(), clientRole()
	r.eval("server prepared by DefaultServerTLSConfig; client certificate valid at that time, expired at the time of the connection", true)
	r.eval("client prepared by DefaultClientTLSConfig; server certificate valid at that time, expired at the time of the connection", true)
	if firstS != "sessionAuth=1 requestAuth=1 handler=1 response=true" {
		r.find(Finding{Kind: "disagreement", What: "expiry scenario (harness): a peer with a still-valid certificate was not served", Actual: firstS})
	} else if thenS != "sessionAuth=0 requestAuth=0 handler=0 response=false" {
		r.find(Finding{Kind: "violation", What: "a peer presenting a certificate that has EXPIRED (it was valid when the server's TLS configuration was prepared, " + life.String() + " earlier) was served", Input: "client certificate NotAfter = " + issued.Add(life).UTC().Format(time.RFC3339) + ", connection at " + time.Now().UTC().Format(time.RFC3339), Expect: "sessionAuth=0 requestAuth=0 handler=0 response=false", Actual: thenS})
	}
	if firstC != "connected=true request-bytes-received=true" {
		r.find(Finding{Kind: "disagreement", What: "expiry scenario (harness): a Client could not talk to a server with a still-valid certificate", Actual: firstC})
	} else if thenC != "connected=false request-bytes-received=false" {
		r.find(Finding{Kind: "violation", What: "a Client prepared by DefaultClientTLSConfig sent a request to a server whose certificate has EXPIRED (it was valid when the configuration was prepared)", Input: "server certificate NotAfter = " + issued.Add(life).UTC().Format(time.RFC3339), Expect: "connected=false request-bytes-received=false", Actual: thenC})
	}
	r.Stats["expiry-after-preparation-scenarios"] += 2
}

// c16LegacyCiphers: who is served does not depend on WHICH cipher suites the peer offers. A TLS 1.2 peer offering nothing but
// one suite crypto/tls implements and does not enable by default (the CBC-SHA256, RC4, 3DES and plain-RSA suites of
// tls.InsecureCipherSuites) and presenting no / a self-signed / a foreign-CA / an expired certificate: nothing runs, nothing
// is sent (whether the handshake fails for want of a common suite or for want of a certificate is crypto/tls's business).
func c16LegacyCiphers(r *Result) {
	ca, other := tlsm.NewCA("c16-legacy-ca"), tlsm.NewCA("c16-legacy-foreign")
	serverCert := tlsm.Leaf(ca, tlsm.LeafOpts{Host: "kmip.test"})
	defer func() { attackCipherSuites = nil }()
	suites := tls.InsecureCipherSuites()
	groups := [][]uint16{}
	var all []uint16
	for _, cs := range suites {
		groups = append(groups, []uint16{cs.ID})
		all = append(all, cs.ID)
	}
	groups = append(groups, all)
	for gi, g := range groups {
		for _, kind := range []string{"none", "selfSigned", "otherCA", "expired"} {
			name := "all of tls.InsecureCipherSuites"
			if len(g) == 1 {
				name = tls.CipherSuiteName(g[0])
			}
			key := fmt.Sprintf("TLS 1.2 peer offering only %s, client certificate: %s", name, kind)
			crumb("C16 " + key)
			r.eval(key, true)
			attackCipherSuites = g
			ev, resp, err := attackServer(ca, other, serverCert, kind, tls.VersionTLS12, false, 2*time.Second, "")
			attackCipherSuites = nil
			r.Stats["legacy-cipher-cells"]++
			if ev != "sessionAuth=0 requestAuth=0 handler=0" || resp {
				r.find(Finding{Kind: "violation", What: "a peer without a certificate chaining to the client-CA pool was served because of the cipher suites it offered", Input: key,
					Expect: "sessionAuth=0 requestAuth=0 handler=0, no response", Actual: fmt.Sprintf("%s response=%v err=%v", ev, resp, err)})
			}
			_ = gi
		}
	}
}

// c16CertificateSources: a tls.Config need not carry its certificate in Certificates - GetCertificate (the usual way to rotate
// certificates) and GetConfigForClient serve as well, and tls.Listen accepts both. Prepared by DefaultServerTLSConfig with a
// client-CA pool and started through ListenAndServe, such a Server is a TLS server like any other: a plaintext peer, a TLS
// peer without certificate and one with a self-signed certificate get nothing; a peer with a certificate of the pool is served.
func c16CertificateSources(r *Result) {
	ca := tlsm.NewCA("c16-src-ca")
	serverCert := tlsm.Leaf(ca, tlsm.LeafOpts{Host: "kmip.test"})
	valid := tlsm.Leaf(ca, tlsm.LeafOpts{Host: "client.test", Client: true})
	selfSigned := tlsm.Leaf(ca, tlsm.LeafOpts{Host: "client.test", SelfSigned: true, Client: true})
	for _, source := range []string{"GetCertificate", "GetConfigForClient"} {
		cfg := &tls.Config{ClientCAs: ca.Pool}
		switch source {
		case "GetCertificate":
			cfg.GetCertificate = func(*tls.ClientHelloInfo) (*tls.Certificate, error) { return &serverCert, nil }
			kmip.DefaultServerTLSConfig(cfg)
		default:
			inner := &tls.Config{Certificates: []tls.Certificate{serverCert}, ClientCAs: ca.Pool}
			kmip.DefaultServerTLSConfig(inner)
			cfg.GetConfigForClient = func(*tls.ClientHelloInfo) (*tls.Config, error) { return inner, nil }
			kmip.DefaultServerTLSConfig(cfg)
		}
		var sa, calls int32
		s := &kmip.Server{Addr: freeAddr(), TLSConfig: cfg, ReadTimeout: 2 * time.Second, WriteTimeout: 2 * time.Second}
		s.SessionAuthHandler = func(c net.Conn) (interface{}, error) { atomic.AddInt32(&sa, 1); return nil, nil }
		s.Handle(kmip.OPERATION_ACTIVATE, func(ctx *kmip.RequestContext, item *kmip.RequestBatchItem) (interface{}, error) {
			atomic.AddInt32(&calls, 1)
			return kmip.ActivateResponse{UniqueIdentifier: "x"}, nil
		})
		init := make(chan struct{})
		ret := make(chan error, 1)
		go func() { ret <- s.ListenAndServe(init) }()
		select {
		case <-init:
		case e := <-ret:
			r.find(Finding{Kind: "disagreement", What: "ListenAndServe refused a configuration tls.Listen accepts (harness or library)", Input: source, Actual: fmt.Sprint(e)})
			continue
		}
		req := kmip.Request{Header: kmip.RequestHeader{Version: kmip.ProtocolVersion{Major: 1, Minor: 4}, BatchCount: 1},
			BatchItems: []kmip.RequestBatchItem{{Operation: kmip.OPERATION_ACTIVATE, RequestPayload: kmip.ActivateRequest{UniqueIdentifier: "a"}}}}
		exchange := func(c net.Conn) bool {
			_ = c.SetDeadline(time.Now().Add(2 * time.Second))
			if e := kmip.NewEncoder(c).Encode(&req); e != nil {
				return false
			}
			var resp kmip.Response
			return kmip.NewDecoder(c).Decode(&resp) == nil && len(resp.BatchItems) == 1
		}
		for _, peer := range []string{"plaintext", "TLS without certificate", "TLS with a self-signed certificate", "TLS with a certificate of the pool"} {
			key := fmt.Sprintf("ListenAndServe on a configuration whose certificate comes from %s (Certificates empty), peer: %s", source, peer)
			crumb("C16 " + key)
			r.eval(key, true)
			atomic.StoreInt32(&sa, 0)
			atomic.StoreInt32(&calls, 0)
			served := false
			if peer == "plaintext" {
				if c, e := net.Dial("tcp", s.Addr); e == nil {
					served = exchange(c)
					c.Close()
				}
			} else {
				ccfg := &tls.Config{RootCAs: ca.Pool, ServerName: "kmip.test", MinVersion: tls.VersionTLS12}
				switch peer {
				case "TLS with a self-signed certificate":
					ccfg.GetClientCertificate = func(*tls.CertificateRequestInfo) (*tls.Certificate, error) { return &selfSigned, nil }
				case "TLS with a certificate of the pool":
					ccfg.Certificates = []tls.Certificate{valid}
				}
				if c, e := tls.Dial("tcp", s.Addr, ccfg); e == nil {
					served = exchange(c)
					c.Close()
				}
			}
			time.Sleep(30 * time.Millisecond)
			obs := fmt.Sprintf("sessionAuth=%d handler=%d response=%v", atomic.LoadInt32(&sa), atomic.LoadInt32(&calls), served)
			want := peer == "TLS with a certificate of the pool"
			if !want && obs != "sessionAuth=0 handler=0 response=false" {
				r.find(Finding{Kind: "violation", What: "KMIP was served to a peer that did not complete a TLS 1.2+ handshake with a certificate of the client-CA pool", Input: key, Expect: "sessionAuth=0 handler=0 response=false", Actual: obs})
			}
			if want && !served {
				r.find(Finding{Kind: "disagreement", What: "a client with a certificate of the pool was not served (crypto/tls assumption or harness)", Input: key, Expect: "served", Actual: obs})
			}
			r.Stats["certificate-source-cells"]++
		}
		ctx, cancel := context.WithTimeout(context.Background(), 3*time.Second)
		_ = s.Shutdown(ctx)
		cancel()
		select {
		case <-ret:
		case <-time.After(3 * time.Second):
		}
	}
}
