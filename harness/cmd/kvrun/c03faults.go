package main

import (
	"bytes"
	"fmt"
	"io"
	"os"
	"reflect"
	"strings"
	"time"

	kmip "github.com/smira/go-kmip"

	"kvharness/internal/mut"
)

// c03PersistentFaults: "ending ... in an I/O error at any offset ... without looping unboundedly" - for an error that STAYS: a read
// deadline that has passed (a net.Error whose Timeout() and Temporary() are both true, os.ErrDeadlineExceeded), a temporary
// error that is no timeout. The source delivers the first `cut` bytes of a message (whole, or 7 at a time) and then fails
// every further Read that way - for as long as it is asked. Decode must come back with an error after a small number of
// failing reads; a Decode still reading after a second and hundreds of failures is looping on the error. Sources: a plain
// io.Reader (the Decoder buffers it) and an io.ByteScanner.
func c03PersistentFaults(r *Result) {
	ver := kmip.ProtocolVersion{Major: 1, Minor: 4}
	msgs := []struct {
		typ string
		v   interface{}
	}{
		{"Request", &kmip.Request{Header: kmip.RequestHeader{Version: ver, ClientCorrelationValue: strings.Repeat("c", 40), BatchCount: 1},
			BatchItems: []kmip.RequestBatchItem{{Operation: kmip.OPERATION_GET, UniqueID: []byte{5, 6, 7}, RequestPayload: kmip.GetRequest{UniqueIdentifier: strings.Repeat("u", 70)}}}}},
		{"Response", &kmip.Response{Header: kmip.ResponseHeader{Version: ver, TimeStamp: time.Unix(1000000000, 0), BatchCount: 1},
			BatchItems: []kmip.ResponseBatchItem{{Operation: kmip.OPERATION_DECRYPT, ResponsePayload: kmip.DecryptResponse{UniqueIdentifier: "k", Data: bytes.Repeat([]byte{7}, 5000)}}}}},
	}
	faults := []struct {
		name string
		err  error
	}{
		{"a net.Error with Timeout() and Temporary() true (a passed read deadline)", tempNetErr{true}},
		{"a net.Error with Temporary() true only", tempNetErr{false}},
		{"os.ErrDeadlineExceeded", os.ErrDeadlineExceeded},
	}
	const budget = 200 // failing reads a Decode call may make before it counts as looping (the unchanged code makes 1 or 2)
	nviol := 0
	for _, m := range msgs {
		var eb bytes.Buffer
		if err := kmip.NewEncoder(&eb).Encode(m.v); err != nil {
			r.find(Finding{Kind: "disagreement", What: "cannot encode the fault-injection message", Input: m.typ, Actual: err.Error()})
			continue
		}
		data := eb.Bytes()
		cuts := map[int]bool{0: true, 1: true, 3: true, 4: true, 8: true, len(data) - 1: true, len(data) / 2: true}
		for _, nd := range mut.All(mut.Parse(data)) {
			for _, c := range []int{nd.Off, nd.Off + 3, nd.Off + 5, nd.Off + 8, nd.Off + 8 + int(nd.Len)/2} {
				if c >= 0 && c < len(data) {
					cuts[c] = true
				}
			}
		}
		for cut := range cuts {
			for fi, ft := range faults {
				for _, scanner := range []bool{false, true} {
					if nviol >= 2 {
						return
					}
					step := []int{1 << 20, 7}[(fi+cut)%2]
					key := fmt.Sprintf("%s of %d bytes: %d bytes delivered (%d at a time; source is an io.ByteScanner: %v), then every Read fails with %s", m.typ, len(data), cut, step, scanner, ft.name)
					crumb("C03 " + key)
					r.eval(key, true)
					fr := &faultReader{data: data, cut: cut, step: step, fault: ft.err, persist: 1 << 30}
					var src io.Reader = fr
					if scanner {
						src = &faultScanner{fr}
					}
					tgt := reflect.New(reflect.TypeOf(m.v).Elem()).Interface()
					done := make(chan string, 1)
					go func() {
						defer func() {
							if p := recover(); p != nil {
								done <- fmt.Sprint("panic: ", p)
							}
						}()
						if err := kmip.NewDecoder(src).Decode(tgt); err != nil {
							done <- "error"
						} else {
							done <- "ok"
						}
					}()
					res := ""
					select {
					case res = <-done:
					case <-time.After(1500 * time.Millisecond):
						res = "still reading after 1.5 s"
						fr.giveUp() // let the goroutine end
						select {
						case <-done:
						case <-time.After(5 * time.Second):
						}
					}
					r.Stats["persistent-fault-decodes"]++
					in := map[string]string{"type": m.typ, "bytes": hx(data[:min(len(data), 512)]), "delivery": key}
					switch {
					case res == "error" && fr.failed() <= budget:
					case res == "ok":
						nviol++
						r.find(Finding{Kind: "violation", What: "Decode reported success for a message the source never delivered in full", Input: in, Expect: "an error", Actual: "nil"})
					case strings.HasPrefix(res, "panic"):
						nviol++
						r.find(Finding{Kind: "violation", What: "Decode panicked on a source that ends in an I/O error", Input: in, Expect: "an error", Actual: res})
					default:
						nviol++
						r.find(Finding{Kind: "violation", What: "Decode keeps reading from a source that fails every Read with the same error: it loops on the I/O error instead of returning it", Input: in,
							Expect: fmt.Sprintf("a non-nil error after at most %d failing reads", budget), Actual: fmt.Sprintf("%s; %d failing reads so far", res, fr.failed())})
					}
				}
			}
		}
	}
}

// faultScanner: the same source as an io.ByteScanner (the Decoder then reads it without a buffer of its own)
type faultScanner struct{ f *faultReader }

func (s *faultScanner) Read(p []byte) (int, error) { return s.f.Read(p) }
func (s *faultScanner) ReadByte() (byte, error) {
	var b [1]byte
	n, err := s.f.Read(b[:])
	if n == 1 {
		return b[0], nil
	}
	return 0, err
}
func (s *faultScanner) UnreadByte() error {
	return fmt.Errorf("faultScanner: UnreadByte not supported")
}
