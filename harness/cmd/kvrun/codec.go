package main

import (
	"bufio"
	"bytes"
	"encoding/hex"
	"fmt"
	"io"
	"reflect"
	"sort"
	"strings"
	"sync"
	"time"

	kmip "github.com/smira/go-kmip"

	"kvharness/internal/drv"
	"kvharness/internal/gen"
	"kvharness/internal/render"
)

// ---- harness-only struct types (mirrored in lean/Driver/Parse.lean `testSchemas`) --------------------

type TBadTag struct {
	kmip.Tag `kmip:"ACTIVATION_DATE"`
	A        int32 `kmip:"NO_SUCH_TAG,required"`
}
type TBadType struct {
	kmip.Tag `kmip:"ACTIVATION_DATE"`
	A        uint16 `kmip:"APPLICATION_DATA,required"`
}
type TPlain struct {
	kmip.Tag `kmip:"ACTIVATION_DATE"`
	A        int32  `kmip:"APPLICATION_DATA,required"`
	B        string `kmip:"APPLICATION_NAMESPACE"`
}
type TNestedBad struct {
	kmip.Tag `kmip:"ACTIVATION_DATE"`
	A        int32    `kmip:"APPLICATION_DATA,required"`
	N        TBadType `kmip:"APPLICATION_SPECIFIC_INFORMATION,required"`
}
type TOptNestedBad struct {
	kmip.Tag `kmip:"ACTIVATION_DATE"`
	A        int32    `kmip:"APPLICATION_DATA,required"`
	N        TBadType `kmip:"APPLICATION_SPECIFIC_INFORMATION"`
}
type TNoTag struct {
	A int32 `kmip:"APPLICATION_DATA"`
}
type TDur struct {
	kmip.Tag `kmip:"ACTIVATION_DATE"`
	D        time.Duration `kmip:"APPLICATION_DATA,required"`
	O        time.Duration `kmip:"APPLICATION_NAMESPACE"`
	L        int64         `kmip:"APPLICATION_SPECIFIC_INFORMATION"`
	T        time.Time     `kmip:"ARCHIVE_DATE"`
}
type TDyn struct {
	kmip.Tag `kmip:"ACTIVATION_DATE"`
	V        interface{} `kmip:"APPLICATION_DATA,required"`
}
type TSlices struct {
	kmip.Tag `kmip:"ACTIVATION_DATE"`
	A        []int32  `kmip:"APPLICATION_DATA,required"`
	B        [][]byte `kmip:"APPLICATION_NAMESPACE"`
	C        []string `kmip:"APPLICATION_SPECIFIC_INFORMATION"`
}

var testTypes = map[string]reflect.Type{
	"TBadTag": reflect.TypeOf(TBadTag{}), "TBadType": reflect.TypeOf(TBadType{}), "TPlain": reflect.TypeOf(TPlain{}),
	"TNestedBad": reflect.TypeOf(TNestedBad{}), "TOptNestedBad": reflect.TypeOf(TOptNestedBad{}), "TNoTag": reflect.TypeOf(TNoTag{}),
	"TDur": reflect.TypeOf(TDur{}), "TDyn": reflect.TypeOf(TDyn{}), "TSlices": reflect.TypeOf(TSlices{}),
}

// ---- running the real encoder ------------------------------------------------------------------------

type recWriter struct {
	buf    bytes.Buffer
	writes int
}

func (w *recWriter) Write(p []byte) (int, error) {
	w.writes++
	return w.buf.Write(p)
}

func hx(b []byte) string {
	if len(b) == 0 {
		return "-"
	}
	return hex.EncodeToString(b)
}

// realEncode runs kmip.Encode under recover and classifies: "ok HEX" | "err" | "panic"; second result = bytes that reached the writer
func realEncode(v interface{}) (out string, written []byte, perr string) {
	w := &recWriter{}
	var err error
	func() {
		defer func() {
			if p := recover(); p != nil {
				perr = fmt.Sprint(p)
			}
		}()
		err = kmip.NewEncoder(w).Encode(v)
	}()
	written = w.buf.Bytes()
	encodeIntoBuffers(v, written, err != nil, perr != "")
	switch {
	case perr != "":
		return "panic", written, perr
	case err != nil:
		return "err", written, ""
	default:
		return "ok " + hx(written), written, ""
	}
}

// destFindings: the same value encoded into the destinations applications really use - a *bytes.Buffer that already holds
// something, a *bufio.Writer - must come out the same way as into the plain recording io.Writer: same outcome, same bytes,
// nothing at all when Encode fails, what was there before left alone. Collected here, reported by the properties they concern
// (C13: a failed Encode writes nothing; C02: the encoding is a function of the value).
var (
	destMu       sync.Mutex
	destFindings []Finding
	destRuns     int
)

func encodeIntoBuffers(v interface{}, ref []byte, refErr, refPanic bool) {
	prefix := []byte{0xde, 0xad, 0xbe}
	run := func(name string, mk func() (io.Writer, func() []byte)) {
		w, result := mk()
		var err error
		panicked := false
		func() {
			defer func() {
				if p := recover(); p != nil {
					panicked = true
				}
			}()
			err = kmip.NewEncoder(w).Encode(v)
		}()
		got := result()
		want := append(append([]byte(nil), prefix...), ref...)
		destMu.Lock()
		defer destMu.Unlock()
		destRuns++
		if len(destFindings) >= 6 {
			return
		}
		in := map[string]string{"go": fmt.Sprintf("%T", v), "destination": name + " already holding de ad be"}
		func() {
			defer func() { _ = recover() }()
			in["value"] = render.Top(v)
		}()
		switch {
		case panicked != refPanic || (err != nil) != refErr:
			destFindings = append(destFindings, Finding{Kind: "violation", What: "the outcome of Encode depends on the kind of destination", Input: in,
				Expect: fmt.Sprintf("error=%v panic=%v (into a plain io.Writer)", refErr, refPanic), Actual: fmt.Sprintf("error=%v panic=%v", err != nil, panicked)})
		case (refErr || refPanic) && !bytes.Equal(got, prefix):
			destFindings = append(destFindings, Finding{Kind: "violation", What: "a failed Encode wrote to (or altered) its destination", Input: in,
				Expect: "destination still holds de ad be only", Actual: hx(got)})
		case !refErr && !refPanic && !bytes.Equal(got, want):
			destFindings = append(destFindings, Finding{Kind: "violation", What: "Encode's output depends on the kind of destination (or it disturbed what the destination held)", Input: in,
				Expect: hx(want), Actual: hx(got)})
		}
	}
	run("*bytes.Buffer", func() (io.Writer, func() []byte) {
		b := bytes.NewBuffer(append(make([]byte, 0, 64), prefix...))
		return b, b.Bytes
	})
	run("*bufio.Writer over a *bytes.Buffer", func() (io.Writer, func() []byte) {
		b := &bytes.Buffer{}
		bw := bufio.NewWriterSize(b, 16)
		_, _ = bw.Write(prefix)
		return bw, func() []byte { _ = bw.Flush(); return b.Bytes() }
	})
}

func drainDestFindings(r *Result) {
	destMu.Lock()
	defer destMu.Unlock()
	for _, f := range destFindings {
		r.find(f)
	}
	r.Stats["encode-into-bytes.Buffer/bufio.Writer-runs"] = destRuns
	destFindings = nil
}

func typeNames(m map[string]reflect.Type) []string {
	var ns []string
	for n := range m {
		ns = append(ns, n)
	}
	sort.Strings(ns)
	return ns
}

func classOf(reply string) string {
	if i := strings.IndexByte(reply, ' '); i > 0 {
		return reply[:i]
	}
	return reply
}

// ---- C02: Encode = canonical TTLV, pure function of the value -----------------------------------------

func init() { props["C02"] = runC02 }

type encCase struct {
	typ  string
	val  reflect.Value // pointer to struct
	top  interface{}   // what is handed to Encode (pointer or value)
	line string        // DynV tokens
	real string
}

func genEncCases(g *gen.G, n int, types map[string]reflect.Type) []encCase {
	return genEncCasesOpt(g, n, types, false)
}

// bigCases: messages larger than the sizes any buffer in the codec starts with (one value of 4095..20000 bytes with
// non-uniform content, or hundreds of small items adding up to 5..40 KiB): whatever is done per chunk, per reallocation or per
// nesting level only shows on such messages. All are well-formed.
func bigCases() []encCase {
	ver := kmip.ProtocolVersion{Major: 1, Minor: 4}
	blob := func(n int) []byte {
		b := make([]byte, n)
		for i := range b {
			b[i] = byte(1 + (i*7+i/251)%255)
		}
		return b
	}
	var tops []interface{}
	for _, n := range []int{4095, 4096, 4097, 5000, 8192, 8193, 12289, 20000} {
		tops = append(tops,
			&kmip.Response{Header: kmip.ResponseHeader{Version: ver, TimeStamp: time.Unix(1000000000, 0), BatchCount: 1},
				BatchItems: []kmip.ResponseBatchItem{{Operation: kmip.OPERATION_DECRYPT, ResultStatus: kmip.RESULT_STATUS_SUCCESS, ResponsePayload: kmip.DecryptResponse{UniqueIdentifier: "k", Data: blob(n)}}}},
			&kmip.Request{Header: kmip.RequestHeader{Version: ver, BatchCount: 1},
				BatchItems: []kmip.RequestBatchItem{{Operation: kmip.OPERATION_GET, RequestPayload: kmip.GetRequest{UniqueIdentifier: string(bytes.ToLower(bytes.Map(func(r rune) rune { return 'a' + r%26 }, blob(n))))}}}})
	}
	for _, k := range []int{90, 200, 800} {
		ids := make([]string, k)
		for i := range ids {
			ids[i] = fmt.Sprintf("object-%04d-%s", i, strings.Repeat("x", i%9))
		}
		tops = append(tops, &kmip.Response{Header: kmip.ResponseHeader{Version: ver, TimeStamp: time.Unix(1000000000, 0), BatchCount: 1},
			BatchItems: []kmip.ResponseBatchItem{{Operation: kmip.OPERATION_LOCATE, ResultStatus: kmip.RESULT_STATUS_SUCCESS, ResponsePayload: kmip.LocateResponse{LocatedItems: int32(k), UniqueIdentifiers: ids}}}})
		var attrs kmip.Attributes
		for i := 0; i < k; i++ {
			attrs = append(attrs, kmip.Attribute{Name: kmip.ATTRIBUTE_NAME_CRYPTOGRAPHIC_LENGTH, Index: int32(i), Value: int32(128 + i)})
		}
		tops = append(tops, &kmip.Request{Header: kmip.RequestHeader{Version: ver, BatchCount: 1},
			BatchItems: []kmip.RequestBatchItem{{Operation: kmip.OPERATION_CREATE, RequestPayload: kmip.CreateRequest{ObjectType: kmip.OBJECT_TYPE_SYMMETRIC_KEY, TemplateAttribute: kmip.TemplateAttribute{Attributes: attrs}}}}})
	}
	var cs []encCase
	for _, top := range tops {
		cs = append(cs, encCase{typ: reflect.TypeOf(top).Elem().Name(), val: reflect.ValueOf(top), top: top, line: render.Top(top)})
	}
	return cs
}

// aliasedCases: byte-string fields carved out of ONE backing array (ciphertext||tag as cipher.AEAD.Seal returns it, iv||data, ...):
// each field has spare capacity that belongs to the next one; lengths are not multiples of 8 so that every field gets padded
func aliasedCases(g *gen.G, types map[string]reflect.Type) []encCase {
	var cs []encCase
	for _, name := range typeNames(types) {
		t := types[name]
		var idx []int
		for fi := 0; fi < t.NumField(); fi++ {
			if t.Field(fi).Type == reflect.TypeOf([]byte(nil)) && t.Field(fi).Tag.Get("kmip") != "" {
				idx = append(idx, fi)
			}
		}
		if len(idx) < 2 {
			continue
		}
		for rep := 0; rep < 3; rep++ {
			p := g.NewStruct(t)
			lens := []int{13, 5, 11, 3, 21, 9}
			total := 0
			for i := range idx {
				total += lens[(i+rep)%len(lens)]
			}
			blob := make([]byte, total)
			for i := range blob {
				blob[i] = byte(0xa0 + i%0x50)
			}
			off := 0
			for i, fi := range idx {
				l := lens[(i+rep)%len(lens)]
				p.Elem().Field(fi).SetBytes(blob[off : off+l])
				off += l
			}
			var top interface{} = p.Interface()
			cs = append(cs, encCase{typ: name, val: p, top: top, line: render.Top(top)})
		}
	}
	return cs
}

// anyPrims: additionally put every primitive Go type into every interface-typed position, whatever the selector announces
// (such values are encodable, but not well-formed in C01's sense: Decode types the position by the selector)
func genEncCasesOpt(g *gen.G, n int, types map[string]reflect.Type, anyPrimsToo bool) []encCase {
	names := typeNames(types)
	var cs []encCase
	for i := 0; i < n; i++ {
		name := names[i%len(names)]
		if i >= len(names)*2 && g.R.Intn(3) != 0 {
			// weight the message envelopes: they reach every other type
			name = []string{"Request", "Response", "Request", "Response", "RequestBatchItem", "ResponseBatchItem", "Attribute", "Authentication"}[g.R.Intn(8)]
		}
		p := g.NewStruct(types[name])
		var top interface{}
		if g.R.Intn(2) == 0 {
			top = p.Interface()
		} else {
			top = p.Elem().Interface()
		}
		cs = append(cs, encCase{typ: name, val: p, top: top, line: render.Top(top)})
	}
	cs = append(cs, bigCases()...)
	if !anyPrimsToo {
		return append(cs, aliasedCases(g, types)...)
	}
	cs = append(cs, aliasedCases(g, types)...)
	// every primitive Go type the codec knows, in every interface-typed position, whatever the selector announces
	d1, d2, d3 := 90*time.Second, time.Hour, 1500*time.Millisecond
	i32, i64, en, bo, st, by, tm := int32(-5), int64(1)<<40, kmip.Enum(7), true, "text", []byte{1, 2, 3}, time.Unix(1000000000, 0)
	anyPrims := []interface{}{i32, i64, en, bo, st, by, tm, d1, d2, d3, &i32, &i64, &en, &bo, &st, &by, &tm, &d1}
	for _, name := range []string{"Attribute", "RequestBatchItem", "ResponseBatchItem", "Authentication"} {
		t := types[name]
		for fi := 0; fi < t.NumField(); fi++ {
			if t.Field(fi).Type.Kind() != reflect.Interface || t.Field(fi).Tag.Get("kmip") == "" || strings.Contains(t.Field(fi).Tag.Get("kmip"), "skip") {
				continue
			}
			for _, pv := range anyPrims {
				p := g.NewStruct(t)
				p.Elem().Field(fi).Set(reflect.ValueOf(pv))
				var top interface{} = p.Interface()
				cs = append(cs, encCase{typ: name, val: p, top: top, line: render.Top(top)})
			}
		}
	}
	return cs
}

func runC02(r *Result, d *drv.Driver, tier string, seed int64, replay string) {
	defer drainDestFindings(r)
	defer c02Intervals(r, d)
	n := 6000
	rounds := 1
	if tier == "thorough" {
		n, rounds = 60000, 6
	}
	r.Rule = "type-directed random values of all annotated struct types (message envelopes weighted), boundary primitives, well-formed and not; " +
		"distinct = distinct rendered value; non-trivial = value encodes to more than a bare header. Each value: real Encode vs model encodeTop (correspondence), " +
		"real Encode vs independent serializer of the canonical tree (property oracle), re-encode after a random history and in 16 parallel goroutines (history-independence)"
	types := gen.StructTypes()
	for round := 0; round < rounds; round++ {
		g := gen.New(seed*1000 + int64(round))
		g.WF = round%2 == 0
		g.Big = round%3 == 2
		g.JunkDyn = 0.05
		cs := genEncCasesOpt(g, n, types, true)
		var lines []string
		for i := range cs {
			before := render.Struct(cs[i].val.Interface())
			cs[i].real, _, _ = realEncode(cs[i].top)
			lines = append(lines, "enctop "+cs[i].line)
			lines = append(lines, "canon "+cs[i].typ+" "+before)
			if after := render.Struct(cs[i].val.Interface()); after != before {
				r.find(Finding{Kind: "violation", What: "Encode modified the value it was given (type " + cs[i].typ + ")", Input: map[string]string{"type": cs[i].typ, "value": before}, Expect: before, Actual: after})
			}
		}
		replies, err := d.AskAll(lines)
		if err != nil {
			r.find(Finding{Kind: "disagreement", What: "driver failure", Input: err.Error()})
			return
		}
		for i, c := range cs {
			model, canon := replies[2*i], replies[2*i+1]
			nontrivial := strings.HasPrefix(c.real, "ok ") && len(c.real) > 3+16
			r.eval(c.line, nontrivial)
			r.Stats["real:"+classOf(c.real)]++
			if i < 2 && round == 0 {
				r.sample(map[string]string{"type": c.typ, "value": c.line, "real": c.real})
			}
			if model != c.real {
				r.find(Finding{Kind: "disagreement", What: "encode model differs from real Encode on type " + c.typ, Input: map[string]string{"op": "enctop", "value": c.line}, Expect: model, Actual: c.real})
			}
			if strings.HasPrefix(c.real, "ok ") && canon != c.real {
				r.find(Finding{Kind: "violation", What: "Encode output is not the canonical TTLV encoding (type " + c.typ + ")", Input: map[string]string{"op": "canon", "type": c.typ, "value": c.line}, Expect: canon, Actual: c.real})
			}
		}
		// history independence: shuffle, interleave decodes, parallel goroutines
		perm := g.R.Perm(len(cs))
		for _, i := range perm[:len(perm)/4] {
			again, _, _ := realEncode(cs[i].top)
			if again != cs[i].real {
				r.find(Finding{Kind: "violation", What: "Encode output depends on history", Input: map[string]string{"value": cs[i].line}, Expect: cs[i].real, Actual: again})
			}
			switch g.R.Intn(6) {
			case 0:
				// a rejected value in between (fails half-way through a structure), and one into a writer that fails
				_, _, _ = realEncode(kmip.Request{Header: kmip.RequestHeader{Version: kmip.ProtocolVersion{Major: 1, Minor: 4}, BatchCount: 1},
					BatchItems: []kmip.RequestBatchItem{{Operation: kmip.OPERATION_GET, RequestPayload: map[string]string{"a": "b"}}}})
			case 1:
				func() {
					defer func() { _ = recover() }()
					_ = kmip.NewEncoder(failingWriter{after: 20}).Encode(cs[i].top)
				}()
			}
			if strings.HasPrefix(again, "ok ") && g.R.Intn(4) == 0 {
				// a decode in between (shares descriptors/type tables if there were any shared state)
				raw := mustHex(again[3:])
				tgt := reflect.New(cs[i].val.Type().Elem())
				func() {
					defer func() { _ = recover() }()
					_ = kmip.NewDecoder(bytes.NewReader(raw)).Decode(tgt.Interface())
				}()
			}
			r.Evaluations++
		}
		var wg sync.WaitGroup
		var mu sync.Mutex
		for w := 0; w < 16; w++ {
			wg.Add(1)
			go func(w int) {
				defer wg.Done()
				for k := w; k < len(cs); k += 16 * 3 {
					again, _, _ := realEncode(cs[k].top)
					if again != cs[k].real {
						mu.Lock()
						r.find(Finding{Kind: "violation", What: "Encode output differs under concurrent encoding", Input: map[string]string{"value": cs[k].line}, Expect: cs[k].real, Actual: again})
						mu.Unlock()
					}
				}
			}(w)
		}
		wg.Wait()
		r.mergeStats("gen:", g.Stats)
	}
}

func mustHex(s string) []byte {
	if s == "-" {
		return nil
	}
	b, err := hex.DecodeString(s)
	if err != nil {
		panic(err)
	}
	return b
}

// failingWriter accepts `after` bytes and then fails
type failingWriter struct{ after int }

func (w failingWriter) Write(p []byte) (int, error) {
	if len(p) > w.after {
		return w.after, fmt.Errorf("write failed")
	}
	return len(p), nil
}

// c02Intervals: the one item whose value is COMPUTED rather than copied - an Interval is the duration's whole seconds. Long
// durations (from 2^24 s, where a float64 runs out of room for the nanoseconds) that end just short of a whole second, in a
// statically typed field and in an optional one: the four value bytes are the truncated second count, as the canonical
// serializer (Lean `canon`) computes it with integers.
func c02Intervals(r *Result, d *drv.Driver) {
	durs := []time.Duration{(1<<24)*time.Second + 999999999, 365*24*time.Hour - 1, (1<<31)*time.Second + 999999999, (1<<32-1)*time.Second + 999999999,
		(1<<24+12345)*time.Second + 999999800, (1<<30)*time.Second + 999999763, 10*24*time.Hour - 1, time.Minute - 1, 1500 * time.Millisecond, (1 << 24) * time.Second, 194*24*time.Hour + 999999999}
	var lines []string
	var reals []string
	for _, du := range durs {
		v := &TDur{D: du, O: du, L: 5, T: time.Unix(1000000000, 0).UTC()}
		real, _, _ := realEncode(v)
		reals = append(reals, real)
		lines = append(lines, "canon TDur "+render.Struct(v))
	}
	replies, err := d.AskAll(lines)
	if err != nil {
		r.find(Finding{Kind: "disagreement", What: "driver failure", Input: err.Error()})
		return
	}
	for i, du := range durs {
		r.eval(lines[i], true)
		r.Stats["interval-boundary-probes"]++
		if strings.HasPrefix(reals[i], "ok ") && reals[i] != replies[i] {
			r.find(Finding{Kind: "violation", What: "an Interval item does not carry the duration's whole seconds", Input: map[string]string{"op": "canon", "type": "TDur", "duration": fmt.Sprintf("%d ns (%v)", int64(du), du), "value": lines[i]}, Expect: replies[i], Actual: reals[i]})
		}
	}
}
