package main

import (
	"context"
	"crypto/tls"
	"fmt"
	"reflect"
	"strings"
	"time"
	"unsafe"

	kmip "github.com/smira/go-kmip"

	"kvharness/internal/drv"
	"kvharness/internal/rec"
	"kvharness/internal/tlsm"
)

// c15ClientTrace: the calls the real Client makes on its connection, against the model (KmipModel/ClientIO.lean, driver
// `clientio`). A Client's connection is a *tls.Conn it dials itself, so to see its deadline calls the harness gives it one
// whose transport is a recording in-memory pipe (the unexported fields conn / e / d are set the way Connect sets them, by
// reflection; the Connect half is tied by its skeleton and observed by timing in c15Client). Every sequence of up to four Sends
// - encodable requests, answered by the package's own Server, and unencodable ones - under every zero / non-zero combination
// of the two timeouts.
func c15ClientTrace(r *Result, d *drv.Driver) {
	ca := tlsm.NewCA("c15-trace-ca")
	scfg := &tls.Config{Certificates: []tls.Certificate{tlsm.Leaf(ca, tlsm.LeafOpts{Host: "kmip.test"})}, ClientCAs: ca.Pool}
	kmip.DefaultServerTLSConfig(scfg)
	clientCert := tlsm.Leaf(ca, tlsm.LeafOpts{Host: "client.test", Client: true})
	var seqs [][]string
	var build func(prefix []string)
	build = func(prefix []string) {
		if len(prefix) > 0 {
			seqs = append(seqs, append([]string(nil), prefix...))
		}
		if len(prefix) == 4 {
			return
		}
		for _, op := range []string{"s11", "s01"} {
			build(append(prefix, op))
		}
	}
	build(nil)
	bad := 0
	for _, tc := range []struct{ rt, wt time.Duration }{{0, 0}, {2 * time.Second, 0}, {0, 2 * time.Second}, {2 * time.Second, 2 * time.Second}} {
		for _, seq := range seqs {
			key := fmt.Sprintf("Client{ReadTimeout: %v, WriteTimeout: %v} on a recording connection: %s", tc.rt, tc.wt, strings.Join(seq, " "))
			crumb("C15 " + key)
			r.eval(key, true)
			s := &kmip.Server{TLSConfig: scfg}
			s.Handle(kmip.OPERATION_ACTIVATE, func(ctx *kmip.RequestContext, item *kmip.RequestBatchItem) (interface{}, error) {
				return kmip.ActivateResponse{UniqueIdentifier: "x"}, nil
			})
			sc, cc := rec.Pipe()
			l := rec.NewListener()
			l.Push(rec.AcceptStep{Conn: tls.Server(rec.NewConn(sc, 1), scfg)})
			init := make(chan struct{})
			ret := make(chan error, 1)
			go func() { ret <- s.Serve(l, init) }()
			<-init
			rcC := rec.NewConn(cc, 2)
			_ = cc.SetDeadline(time.Now().Add(10 * time.Second))
			ccfg := &tls.Config{RootCAs: ca.Pool, ServerName: "kmip.test", Certificates: []tls.Certificate{clientCert}}
			kmip.DefaultClientTLSConfig(ccfg)
			tconn := tls.Client(rcC, ccfg)
			obs := ""
			if err := tconn.Handshake(); err != nil {
				r.find(Finding{Kind: "disagreement", What: "c15ClientTrace: handshake failed (harness)", Input: key, Actual: err.Error()})
			} else {
				rcC.L.Add("mark")
				cl := &kmip.Client{ReadTimeout: tc.rt, WriteTimeout: tc.wt, Version: kmip.ProtocolVersion{Major: 1, Minor: 4}}
				v := reflect.ValueOf(cl).Elem()
				set := func(name string, x interface{}) {
					f := v.FieldByName(name)
					reflect.NewAt(f.Type(), unsafe.Pointer(f.UnsafeAddr())).Elem().Set(reflect.ValueOf(x))
				}
				set("conn", tconn)
				set("e", kmip.NewEncoder(tconn))
				set("d", kmip.NewDecoder(tconn))
				outcomes := ""
				for _, op := range seq {
					var err error
					if op == "s11" {
						_, err = cl.Send(kmip.OPERATION_ACTIVATE, kmip.ActivateRequest{UniqueIdentifier: "a"})
					} else {
						_, err = cl.Send(kmip.OPERATION_ACTIVATE, make(chan int))
					}
					outcomes += fmt.Sprintf("%s=%v ", op, err == nil)
				}
				want := ""
				for _, op := range seq {
					want += fmt.Sprintf("%s=%v ", op, op == "s11")
				}
				if outcomes != want {
					r.find(Finding{Kind: "violation", What: "a Client on an established connection did not complete its exchanges (or sent an unencodable request)", Input: key, Expect: want, Actual: outcomes})
				}
				evs := rcC.L.Events()
				for i, e := range evs {
					if e == "mark" {
						evs = evs[i+1:]
						break
					}
				}
				obs = "ok " + strings.Join(evs, ";")
			}
			cc.Close()
			ctx, cancel := context.WithTimeout(context.Background(), 5*time.Second)
			_ = s.Shutdown(ctx)
			cancel()
			<-ret
			if obs == "" {
				continue
			}
			b2s := func(t time.Duration) string {
				if t != 0 {
					return "1"
				}
				return "0"
			}
			model, err := d.Ask("clientio " + b2s(tc.rt) + " " + b2s(tc.wt) + " j " + strings.Join(seq, " "))
			r.Stats["client-trace-sequences"]++
			if err != nil {
				r.find(Finding{Kind: "disagreement", What: "driver failure", Input: err.Error()})
				return
			}
			if model != obs && bad < 4 {
				bad++
				kind := "disagreement"
				what := "the calls the Client makes on its connection differ from the model's"
				// judged by the property itself
				hasRead, hasWrite := strings.Contains(obs, "armRead") || strings.Contains(obs, "clearRead") || strings.Contains(obs, "armBoth"), strings.Contains(obs, "armWrite") || strings.Contains(obs, "clearWrite") || strings.Contains(obs, "armBoth")
				switch {
				case tc.rt == 0 && hasRead, tc.wt == 0 && hasWrite:
					kind, what = "violation", "a Client with a zero timeout set a deadline on its connection"
				}
				if tc.wt != 0 && !allPreceded(obs, "write", "armWrite") {
					kind, what = "violation", "a Client with WriteTimeout set wrote a request without arming a fresh write deadline right before it"
				}
				if tc.rt != 0 && !allPreceded(obs, "read", "armRead") {
					kind, what = "violation", "a Client with ReadTimeout set waited for a response without arming a fresh read deadline right before it"
				}
				r.find(Finding{Kind: kind, What: what, Input: key, Expect: model, Actual: obs})
			}
		}
	}
}

// allPreceded: in "ok a;b;c", every event e is immediately preceded by arm
func allPreceded(obs, e, arm string) bool {
	evs := strings.Split(strings.TrimPrefix(obs, "ok "), ";")
	for i, x := range evs {
		if x == e && (i == 0 || evs[i-1] != arm) {
			return false
		}
	}
	return true
}
