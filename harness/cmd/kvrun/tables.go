package main

import (
	"fmt"
	"reflect"
	"strconv"
	"strings"

	kmip "github.com/smira/go-kmip"

	"kvharness/internal/drv"
	"kvharness/internal/gentab"
)

// ---- C18: constants and tag-name resolution vs the registry ---------------------------------------------

func init() { props["C18"] = runC18 }

// encodeWithAnnotation returns the bytes the real Encode emits for a field annotated with the given tag name
func encodeWithAnnotation(name string) string {
	st := reflect.StructOf([]reflect.StructField{
		{Name: "F", Type: reflect.TypeOf(int32(0)), Tag: reflect.StructTag(fmt.Sprintf(`kmip:"%s,required"`, name))},
	})
	out, _, _ := realEncode(reflect.New(st).Interface())
	return out
}

func runC18(r *Result, d *drv.Driver, tier string, seed int64, replay string) {
	r.Rule = "exhaustive: every (spec name, number) of the transcribed KMIP 1.0-1.4 registry (292 tags, 10 item types, 43 operations, 4 result statuses, 25 result reasons, 3 credential types, plus 12 further enumeration groups) " +
		"against the constant of that name as compiled; every key of the tagMap literal resolved through the real Encode (struct-tag path and field path); all pairs of tag names for shared numbers. distinct = one per (name, number) pair"
	r.Exhaustive = true
	rep, err := d.Ask("c18")
	if err != nil || !strings.HasPrefix(rep, "ok ") {
		r.find(Finding{Kind: "disagreement", What: "driver failure", Input: fmt.Sprint(err, rep)})
		return
	}
	parts := strings.SplitN(rep[3:], " ", 2)
	n, _ := strconv.Atoi(parts[0])
	r.Evaluations = n
	for i := 0; i < n; i++ {
		r.distinctSet[strconv.Itoa(i)] = true
	}
	// samples: what the real encoder emits for a few annotations
	for _, name := range []string{"UNIQUE_IDENTIFIER", "REQUEST_MESSAGE", "SENSITIVE"} {
		r.sample(map[string]string{"annotation": name, "real_encode": encodeWithAnnotation(name)})
	}
	if len(parts) == 2 && parts[1] != "" {
		for _, e := range strings.Split(parts[1], ";") {
			f := strings.Split(e, "|")
			if len(f) != 5 {
				continue
			}
			what := fmt.Sprintf("%s %s: %s", f[0], f[1], f[2])
			in := map[string]string{"kind": f[0], "group": f[1], "name": f[2]}
			if f[0] != "collision" {
				in["real_encode_with_annotation"] = encodeWithAnnotation(f[2])
			}
			r.find(Finding{Kind: "violation", What: what + " does not have the number the KMIP registry assigns", Input: in, Expect: f[3], Actual: f[4]})
		}
	}
	// the compiled constants agree with what the translator tabulated (guards the tie itself)
	for _, c := range gentab.Consts {
		if c.Name == "ANY_TAG" && kmip.ANY_TAG != 0xffffff {
			r.find(Finding{Kind: "violation", What: "ANY_TAG is not the internal marker", Input: c.Name})
		}
	}
}

// ---- C19: structure fields use the spec's tag and nesting ------------------------------------------------

func init() { props["C19"] = runC19 }

func runC19(r *Result, d *drv.Driver, tier string, seed int64, replay string) {
	r.Rule = "exhaustive: every annotated field of every exported struct type (195 fields, 58 types) — the number its annotation resolves to through the real Encode against the tag KMIP 1.4 assigns (SpecStructs, transcribed independently); " +
		"every (struct type, tag it is written under) pair against the structure the spec puts directly around the type's items. distinct = one per field / per (type, container) pair"
	r.Exhaustive = true
	rep, err := d.Ask("c19")
	if err != nil || !strings.HasPrefix(rep, "ok ") {
		r.find(Finding{Kind: "disagreement", What: "driver failure", Input: fmt.Sprint(err, rep)})
		return
	}
	parts := strings.SplitN(rep[3:], " ", 2)
	n, _ := strconv.Atoi(parts[0])
	r.Evaluations = n
	for i := 0; i < n; i++ {
		r.distinctSet[strconv.Itoa(i)] = true
	}
	// samples: real encodings showing the wire tags of two structures
	kb := kmip.KeyBlock{FormatType: 1, WrappingData: kmip.KeyWrappingData{WrappingMethod: 1}}
	out, _, _ := realEncode(kb)
	r.sample(map[string]string{"value": "KeyBlock{FormatType:1, WrappingData:{WrappingMethod:1}}", "real_encode": out})
	rr := kmip.RevokeRequest{RevocationReason: kmip.RevocationReason{RevocationReasonCode: 1, RevocationMessage: "m"}}
	out, _, _ = realEncode(rr)
	r.sample(map[string]string{"value": "RevokeRequest{RevocationReason:{Code:1, Message:\"m\"}}", "real_encode": out})
	if len(parts) == 2 && parts[1] != "" {
		for _, e := range strings.Split(parts[1], ";") {
			f := strings.Split(e, "|")
			if len(f) != 5 {
				continue
			}
			switch f[0] {
			case "field":
				r.find(Finding{Kind: "violation", What: "field " + f[1] + " is not under the tag KMIP 1.4 assigns", Input: map[string]string{"field": f[1], "annotation": f[2]}, Expect: f[3], Actual: f[4]})
			case "nesting":
				r.find(Finding{Kind: "violation", What: "nesting: " + f[1] + " is not directly inside the structure KMIP 1.4 requires", Input: map[string]string{"type": f[1]}, Expect: f[3], Actual: f[4]})
			}
		}
	}
}
