package main

import (
	"bytes"
	"encoding/hex"
	"fmt"
	"io"
	"reflect"
	"sort"
	"strconv"
	"strings"
	"sync"
	"sync/atomic"
	"time"

	kmip "github.com/smira/go-kmip"

	"kvharness/internal/drv"
	"kvharness/internal/gen"
	"kvharness/internal/gentab"
	"kvharness/internal/mut"
	"kvharness/internal/render"
)

// ---- C18: constants and tag-name resolution vs the registry ---------------------------------------------

func init() { props["C18"] = runC18 }

// encodeWithAnnotation returns the bytes the real Encode emits for a field annotated with the given tag name
func encodeWithAnnotation(name string) string {
	st := reflect.StructOf([]reflect.StructField{
		{Name: "F", Type: reflect.TypeOf(int32(0)), Tag: reflect.StructTag(fmt.Sprintf(`kmip:"%s,required"`, name))},
	})
	out, _, _ := realEncode(reflect.New(st).Interface())
	return out
}

func runC18(r *Result, d *drv.Driver, tier string, seed int64, replay string) {
	r.Rule = "exhaustive: every (spec name, number) of the transcribed KMIP 1.0-1.4 registry (292 tags, 10 item types, 43 operations, 4 result statuses, 25 result reasons, 3 credential types, plus 12 further enumeration groups) " +
		"against the constant of that name as compiled; every key of the tagMap literal resolved through the real Encode (struct-tag path - carried by an embedded, exported, blank or unexported Tag field - and field path, incl. single / repeated structure-typed fields whose element type declares another tag); all pairs of tag names for shared numbers. distinct = one per (name, number) pair"
	r.Exhaustive = true
	rep, err := d.Ask("c18")
	if err != nil || !strings.HasPrefix(rep, "ok ") {
		r.find(Finding{Kind: "disagreement", What: "driver failure", Input: fmt.Sprint(err, rep)})
		return
	}
	parts := strings.SplitN(rep[3:], " ", 2)
	n, _ := strconv.Atoi(parts[0])
	r.Evaluations = n
	for i := 0; i < n; i++ {
		r.distinctSet[strconv.Itoa(i)] = true
	}
	c18StructTagsStable(r, seed)
	c18Options(r)
	c18MarkerForms(r)
	c18OtherKeys(r)
	c18Repeated(r)
	c18Embedded(r)
	// samples: what the real encoder emits for a few annotations
	for _, name := range []string{"UNIQUE_IDENTIFIER", "REQUEST_MESSAGE", "SENSITIVE"} {
		r.sample(map[string]string{"annotation": name, "real_encode": encodeWithAnnotation(name)})
	}
	if len(parts) == 2 && parts[1] != "" {
		for _, e := range strings.Split(parts[1], ";") {
			f := strings.Split(e, "|")
			if len(f) != 5 {
				continue
			}
			what := fmt.Sprintf("%s %s: %s", f[0], f[1], f[2])
			in := map[string]string{"kind": f[0], "group": f[1], "name": f[2]}
			if f[0] != "collision" {
				in["real_encode_with_annotation"] = encodeWithAnnotation(f[2])
			}
			r.find(Finding{Kind: "violation", What: what + " does not have the number the KMIP registry assigns", Input: in, Expect: f[3], Actual: f[4]})
		}
	}
	// the compiled constants agree with what the translator tabulated (guards the tie itself)
	for _, c := range gentab.Consts {
		if c.Name == "ANY_TAG" && kmip.ANY_TAG != 0xffffff {
			r.find(Finding{Kind: "violation", What: "ANY_TAG is not the internal marker", Input: c.Name})
		}
	}
}

// ---- C19: structure fields use the spec's tag and nesting ------------------------------------------------

func init() { props["C19"] = runC19 }

func runC19(r *Result, d *drv.Driver, tier string, seed int64, replay string) {
	r.Rule = "exhaustive: every annotated field of every exported struct type (195 fields, 58 types) — the number its annotation resolves to through the real Encode against the tag KMIP 1.4 assigns (SpecStructs, transcribed independently); " +
		"every (struct type, tag it is written under) pair against the structure the spec puts directly around the type's items; wire probe: populated instances of every struct type through the real Encode, the tags of the emitted child items against the numbers the annotations denote (the numbers GenC19 proves equal to the spec's); large messages (4..40 KiB) and messages with modelled structures in the dynamically typed positions (by value and by pointer): one well-nested item, every structure length exactly enclosing its children, tag tree equal to the independent serializer's. distinct = one per field / per (type, container) pair"
	r.Exhaustive = true
	rep, err := d.Ask("c19")
	if err != nil || !strings.HasPrefix(rep, "ok ") {
		r.find(Finding{Kind: "disagreement", What: "driver failure", Input: fmt.Sprint(err, rep)})
		return
	}
	parts := strings.SplitN(rep[3:], " ", 2)
	n, _ := strconv.Atoi(parts[0])
	r.Evaluations = n
	for i := 0; i < n; i++ {
		r.distinctSet[strconv.Itoa(i)] = true
	}
	// samples: real encodings showing the wire tags of two structures
	kb := kmip.KeyBlock{FormatType: 1}
	kb.WrappingData.WrappingMethod = 1 // by assignment: it works whether the field is declared in the type or promoted into it
	out, _, _ := realEncode(kb)
	r.sample(map[string]string{"value": "KeyBlock{FormatType:1, WrappingData:{WrappingMethod:1}}", "real_encode": out})
	rr := kmip.RevokeRequest{RevocationReason: kmip.RevocationReason{RevocationReasonCode: 1, RevocationMessage: "m"}}
	out, _, _ = realEncode(rr)
	r.sample(map[string]string{"value": "RevokeRequest{RevocationReason:{Code:1, Message:\"m\"}}", "real_encode": out})
	c19Wire(r, seed, tier)
	c19WireBig(r)
	c19Reuse(r)
	c19Concurrent(r)
	c19WriteFaults(r)
	if len(parts) == 2 && parts[1] != "" {
		for _, e := range strings.Split(parts[1], ";") {
			f := strings.Split(e, "|")
			if len(f) != 5 {
				continue
			}
			switch f[0] {
			case "field":
				r.find(Finding{Kind: "violation", What: "field " + f[1] + " is not under the tag KMIP 1.4 assigns", Input: map[string]string{"field": f[1], "annotation": f[2]}, Expect: f[3], Actual: f[4]})
			case "nesting":
				r.find(Finding{Kind: "violation", What: "nesting: " + f[1] + " is not directly inside the structure KMIP 1.4 requires", Input: map[string]string{"type": f[1]}, Expect: f[3], Actual: f[4]})
			}
		}
	}
}

// c19Wire encodes populated instances of every annotated struct type with the real Encode and compares the tags of the
// items directly inside the emitted structure, in order, with the tag constants the fields' annotations name.
func c19Wire(r *Result, seed int64, tier string) {
	tagNum := map[string]uint32{}
	for _, c := range gentab.Consts {
		if c.Typ == "Tag" {
			tagNum[c.Name] = uint32(c.Num)
		}
	}
	per := 6
	if tier == "thorough" {
		per = 60
	}
	g := gen.New(seed + 77)
	g.WF = true
	types := gen.StructTypes()
	names := make([]string, 0, len(types))
	for n := range types {
		names = append(names, n)
	}
	sort.Strings(names)
	covered := map[string]bool{}
	for _, n := range names {
		t := types[n]
		fields := render.Fields(t)
		hasDyn := false
		for _, f := range fields {
			if f.Type.Kind() == reflect.Interface && !f.Skip {
				hasDyn = true
			}
		}
		for k := 0; k < per; k++ {
			p := g.NewStruct(t)
			topUp(p.Elem(), 0)
			if hasDyn && k%3 == 2 {
				// the dynamically typed fields left nil: whatever Encode makes of that (it refuses a required one), anything it
				// does write must sit under the right tag at the right level
				for _, f := range fields {
					if f.Type.Kind() == reflect.Interface && !f.Skip {
						p.Elem().Field(f.Index).Set(reflect.Zero(f.Type))
					}
				}
			}
			res, b, _ := realEncode(p.Interface())
			r.Evaluations++
			if !strings.HasPrefix(res, "ok") {
				r.Stats["c19wire:encode-"+res]++
				continue
			}
			out := hex.EncodeToString(b)
			top := mut.Parse(b)
			if len(top) != 1 {
				r.find(Finding{Kind: "violation", What: "Encode of " + n + " did not emit exactly one item", Input: map[string]string{"type": n, "bytes": out}})
				continue
			}
			var want []uint32
			var wantNames []string
			for _, f := range fields {
				if f.Skip || f.TagName == "-" {
					continue
				}
				fv := p.Elem().Field(f.Index)
				if tm, isT := fv.Interface().(time.Time); isT && fv.Kind() == reflect.Struct {
					if !f.Required && tm.IsZero() {
						continue
					}
				} else if !f.Required && fv.IsZero() {
					continue
				}
				reps := 1
				if fv.Kind() == reflect.Slice && fv.Type().Elem().Kind() != reflect.Uint8 {
					reps = fv.Len()
				}
				for i := 0; i < reps; i++ {
					want = append(want, tagNum[f.TagName])
					wantNames = append(wantNames, n+"."+f.Name)
				}
			}
			var got []uint32
			for _, kid := range top[0].Kids {
				got = append(got, kid.Tag)
			}
			r.Stats["c19wire:instances"]++
			ok := len(got) == len(want)
			for i := 0; ok && i < len(got); i++ {
				ok = got[i] == want[i]
			}
			for _, w := range wantNames {
				covered[w] = true
			}
			if !ok {
				r.find(Finding{Kind: "violation", What: "wire tags of " + n + "'s fields as emitted by Encode differ from the tags their annotations name",
					Input:  map[string]string{"type": n, "value": render.Struct(p.Interface()), "bytes": out, "fields": strings.Join(wantNames, ",")},
					Expect: fmt.Sprintf("%x", want), Actual: fmt.Sprintf("%x", got)})
				break
			}
		}
	}
	r.Stats["c19wire:fields-observed-on-the-wire"] = len(covered)
}

// topUp makes zero-valued plain fields non-zero (selectors and dynamic fields are left as generated)
func topUp(v reflect.Value, depth int) {
	if depth > 4 {
		return
	}
	t := v.Type()
	dynSel := map[string]bool{}
	for _, f := range render.Fields(t) {
		if f.Type.Kind() == reflect.Interface {
			dynSel["*"] = true
		}
	}
	for _, f := range render.Fields(t) {
		fv := v.Field(f.Index)
		if f.Skip || f.Type.Kind() == reflect.Interface {
			continue
		}
		switch fv.Kind() {
		case reflect.Struct:
			if fv.Type() == reflect.TypeOf(time.Time{}) {
				if fv.Interface().(time.Time).IsZero() {
					fv.Set(reflect.ValueOf(time.Unix(1700000000, 0)))
				}
			} else {
				topUp(fv, depth+1)
			}
		case reflect.Slice:
			if fv.Type().Elem().Kind() == reflect.Uint8 {
				if fv.Len() == 0 {
					fv.SetBytes([]byte{1})
				}
			} else if fv.Len() == 0 && depth < 3 {
				s := reflect.MakeSlice(fv.Type(), 1, 1)
				if s.Index(0).Kind() == reflect.Struct && s.Index(0).Type() != reflect.TypeOf(time.Time{}) {
					topUp(s.Index(0), depth+1)
				}
				fv.Set(s)
			} else {
				for i := 0; i < fv.Len(); i++ {
					if fv.Index(i).Kind() == reflect.Struct && fv.Index(i).Type() != reflect.TypeOf(time.Time{}) {
						topUp(fv.Index(i), depth+1)
					}
				}
			}
		case reflect.String:
			if fv.Len() == 0 && !dynSel["*"] {
				fv.SetString("x")
			}
		case reflect.Bool:
			fv.SetBool(true)
		case reflect.Int32, reflect.Int64:
			if fv.Int() == 0 {
				fv.SetInt(1000000000)
			}
		case reflect.Uint32:
			if fv.Uint() == 0 && !dynSel["*"] {
				fv.SetUint(1)
			}
		}
	}
}

// c18StructTagsStable: the number a struct-level `Tag` annotation resolves to (as seen on the wire when the struct is encoded
// at top level) is the constant of that name - before AND after the same types have been written and read under OTHER tags
// (Name / Digest as attribute values, Template-Attribute under the three Create Key Pair tags, credentials): resolution of a
// tag name must not depend on what the process did earlier.
func c18StructTagsStable(r *Result, seed int64) {
	tagNum := map[string]uint32{}
	for _, c := range gentab.Consts {
		if c.Typ == "Tag" {
			tagNum[c.Name] = uint32(c.Num)
		}
	}
	types := gen.StructTypes()
	names := make([]string, 0, len(types))
	for n := range types {
		names = append(names, n)
	}
	sort.Strings(names)
	g := gen.New(seed + 1818)
	g.WF = true
	observe := func(phase string) {
		for _, n := range names {
			t := types[n]
			own := ""
			for i := 0; i < t.NumField(); i++ {
				if t.Field(i).Type == reflect.TypeOf(kmip.Tag(0)) {
					own = strings.SplitN(t.Field(i).Tag.Get("kmip"), ",", 2)[0]
				}
			}
			if own == "" {
				continue
			}
			p := g.NewStruct(t)
			topUp(p.Elem(), 0)
			res, b, _ := realEncode(p.Interface())
			r.Evaluations++
			if !strings.HasPrefix(res, "ok") || len(b) < 3 {
				continue
			}
			got := uint32(b[0])<<16 | uint32(b[1])<<8 | uint32(b[2])
			r.Stats["struct-tag-observations"]++
			if got != tagNum[own] {
				r.find(Finding{Kind: "violation", What: "the struct-level annotation of " + n + " (" + own + ") does not resolve to the constant of that name (" + phase + ")",
					Input: map[string]string{"type": n, "annotation": own, "phase": phase}, Expect: fmt.Sprintf("%06x", tagNum[own]), Actual: fmt.Sprintf("%06x", got)})
			}
		}
	}
	observe("fresh")
	// the same types under other tags, encoded and decoded
	hist := []interface{}{
		&kmip.Attribute{Name: "Name", Value: kmip.Name{Value: "k", Type: 1}},
		&kmip.Attribute{Name: "Digest", Value: kmip.Digest{HashingAlgorithm: 6, DigestValue: []byte{1}}},
		&kmip.CreateKeyPairRequest{CommonTemplateAttribute: kmip.TemplateAttribute{Attributes: []kmip.Attribute{{Name: "State", Value: kmip.Enum(1)}}},
			PrivateKeyTemplateAttribute: kmip.TemplateAttribute{Attributes: []kmip.Attribute{{Name: "State", Value: kmip.Enum(2)}}},
			PublicKeyTemplateAttribute:  kmip.TemplateAttribute{Attributes: []kmip.Attribute{{Name: "State", Value: kmip.Enum(3)}}}},
		&kmip.Authentication{CredentialType: kmip.CREDENTIAL_TYPE_USERNAME_AND_PASSWORD, CredentialValue: kmip.CredentialUsernamePassword{Username: "u", Password: "p"}},
	}
	for _, h := range hist {
		_, b, _ := realEncode(h)
		if len(b) > 0 {
			tgt := reflect.New(reflect.TypeOf(h).Elem())
			func() {
				defer func() { _ = recover() }()
				_ = kmip.NewDecoder(bytes.NewReader(b)).Decode(tgt.Interface())
			}()
		}
	}
	observe("after the same types were written and read under other tags")
}

// c18Options: a tag name resolves to its number whatever OPTIONS follow it in the annotation. For every key of the tagMap
// literal, a struct {A int32 `kmip:"X,skip"`; B int32 `kmip:"Y"`} (Y another name) decodes a structure holding only an item
// tagged Y: field A (tag X, optional, skipped) must not claim it, so B receives the value; and with an item X in front, A
// swallows X and B still receives Y. Likewise `kmip:"X"` without options (optional field) must not claim Y.
func c18Options(r *Result) {
	tagNum := map[string]uint32{}
	for _, c := range gentab.Consts {
		if c.Typ == "Tag" {
			tagNum[c.Name] = uint32(c.Num)
		}
	}
	var names []string
	for _, kv := range gentab.MapKeys["tagMap"] {
		names = append(names, strings.SplitN(kv, "=", 2)[0])
	}
	item := func(tag uint32, v byte) []byte {
		return []byte{byte(tag >> 16), byte(tag >> 8), byte(tag), 2, 0, 0, 0, 4, 0, 0, 0, v, 0, 0, 0, 0}
	}
	wrap := func(body []byte) []byte {
		return append([]byte{0x42, 0x00, 0x01, 0x01, 0, 0, 0, byte(len(body))}, body...)
	}
	bad := 0
	for _, x := range names {
		if x == "-" || x == "ANY_TAG" || tagNum[x] == 0 {
			continue
		}
		y := "APPLICATION_DATA"
		if x == y {
			y = "APPLICATION_NAMESPACE"
		}
		for _, opt := range []string{",skip", ""} {
			st := reflect.StructOf([]reflect.StructField{
				{Name: "Tag", Type: reflect.TypeOf(kmip.Tag(0)), Tag: `kmip:"ACTIVATION_DATE"`, Anonymous: true},
				{Name: "A", Type: reflect.TypeOf(int32(0)), Tag: reflect.StructTag(fmt.Sprintf(`kmip:"%s%s"`, x, opt))},
				{Name: "B", Type: reflect.TypeOf(int32(0)), Tag: reflect.StructTag(fmt.Sprintf(`kmip:"%s"`, y))},
			})
			for _, withX := range []bool{false, true} {
				body := item(tagNum[y], 7)
				if withX {
					body = append(item(tagNum[x], 9), body...)
				}
				tgt := reflect.New(st)
				var err error
				func() {
					defer func() {
						if p := recover(); p != nil {
							err = fmt.Errorf("panic: %v", p)
						}
					}()
					err = kmip.NewDecoder(bytes.NewReader(wrap(body))).Decode(tgt.Interface())
				}()
				r.Evaluations++
				gotB := tgt.Elem().Field(2).Int()
				if (err != nil || gotB != 7) && bad < 5 {
					bad++
					r.find(Finding{Kind: "violation", What: "annotation kmip:\"" + x + opt + "\" does not resolve to the number of " + x + " (a field annotated with it claimed, or failed to step aside for, an item of another tag)",
						Input: map[string]string{"annotation": x + opt, "other field": y, "message": hex.EncodeToString(wrap(body))}, Expect: "B = 7, no error", Actual: fmt.Sprintf("B = %d, err = %v", gotB, err)})
				}
			}
		}
	}
	r.Stats["annotation-option-probes"] = len(names) * 4
}

// c18OtherKeys: a Go struct tag is a list of key:"value" pairs and `kmip` need be neither the only nor the last one
// (`kmip:"SALT" json:"salt"` is the ordinary way to make one type serve two encodings). For EVERY tag name of the table,
// as a field annotation and as the struct's own annotation, with other keys before and after the kmip key - including keys
// whose values contain the words the kmip options use -: Encode writes exactly the bytes it writes when kmip is the only key.
func c18OtherKeys(r *Result) {
	var names []string
	for _, kv := range gentab.MapKeys["tagMap"] {
		names = append(names, strings.SplitN(kv, "=", 2)[0])
	}
	tTag := reflect.TypeOf(kmip.Tag(0))
	enc := func(own, field reflect.StructTag, v int32) string {
		st := reflect.StructOf([]reflect.StructField{
			{Name: "Tag", Type: tTag, Anonymous: true, Tag: own},
			{Name: "F", Type: reflect.TypeOf(int32(0)), Tag: field}})
		val := reflect.New(st)
		val.Elem().Field(1).SetInt(int64(v))
		out, _, _ := realEncode(val.Interface())
		return out
	}
	type form struct{ pre, post string }
	forms := []form{{"", ` json:"x"`}, {`json:"x" `, ""}, {`json:"x,omitempty" `, ` yaml:"y" validate:"required"`}, {"", ` db:"skip,required"`}, {`xml:"kmip" `, ` json:"-"`}}
	bad := 0
	for _, x := range names {
		if x == "-" || x == "ANY_TAG" {
			continue
		}
		for _, opt := range []string{"", ",required"} {
			for _, v := range []int32{0, 5} {
				plainField := enc(`kmip:"ACTIVATION_DATE"`, reflect.StructTag(fmt.Sprintf(`kmip:"%s%s"`, x, opt)), v)
				plainOwn := enc(reflect.StructTag(fmt.Sprintf(`kmip:"%s"`, x)), `kmip:"BATCH_COUNT,required"`, v)
				for _, f := range forms {
					r.Evaluations += 2
					gotField := enc(`kmip:"ACTIVATION_DATE"`, reflect.StructTag(fmt.Sprintf(`%skmip:"%s%s"%s`, f.pre, x, opt, f.post)), v)
					gotOwn := enc(reflect.StructTag(fmt.Sprintf(`%skmip:"%s"%s`, f.pre, x, f.post)), `kmip:"BATCH_COUNT,required"`, v)
					if gotField != plainField && bad < 5 {
						bad++
						r.find(Finding{Kind: "violation", What: "the field annotation kmip:\"" + x + opt + "\" does not resolve to the number of " + x + " when the struct tag carries other keys too",
							Input: map[string]string{"struct tag": fmt.Sprintf(`%skmip:"%s%s"%s`, f.pre, x, opt, f.post), "field value": fmt.Sprint(v)}, Expect: plainField, Actual: gotField})
					}
					if gotOwn != plainOwn && bad < 5 {
						bad++
						r.find(Finding{Kind: "violation", What: "the struct annotation kmip:\"" + x + "\" does not resolve to the number of " + x + " when the struct tag carries other keys too",
							Input: map[string]string{"struct tag": fmt.Sprintf(`%skmip:"%s"%s`, f.pre, x, f.post)}, Expect: plainOwn, Actual: gotOwn})
					}
				}
			}
		}
	}
	r.Stats["annotation-other-key-probes"] = len(names) * 2 * 2 * len(forms) * 2
	// several options after the name - `NAME,required,skip` (must be there, value not looked at), options the codec does not know
	// (`NAME,required,omitempty`): the name is what precedes the FIRST comma
	for _, x := range names {
		if x == "-" || x == "ANY_TAG" {
			continue
		}
		for _, v := range []int32{0, 5} {
			r.Evaluations += 3
			want := enc(`kmip:"ACTIVATION_DATE"`, reflect.StructTag(fmt.Sprintf(`kmip:"%s,required"`, x)), v)
			for _, opts := range []string{",required,omitempty", ",omitempty,required"} {
				if got := enc(`kmip:"ACTIVATION_DATE"`, reflect.StructTag(fmt.Sprintf(`kmip:"%s%s"`, x, opts)), v); got != want && bad < 5 {
					bad++
					r.find(Finding{Kind: "violation", What: "the field annotation kmip:\"" + x + opts + "\" does not resolve to the number of " + x + " (several options after the name)",
						Input: map[string]string{"annotation": x + opts, "field value": fmt.Sprint(v)}, Expect: want, Actual: got})
				}
			}
			wantOwn := enc(reflect.StructTag(fmt.Sprintf(`kmip:"%s"`, x)), `kmip:"BATCH_COUNT,required"`, v)
			if got := enc(reflect.StructTag(fmt.Sprintf(`kmip:"%s,foo,bar"`, x)), `kmip:"BATCH_COUNT,required"`, v); got != wantOwn && bad < 5 {
				bad++
				r.find(Finding{Kind: "violation", What: "the struct annotation kmip:\"" + x + ",foo,bar\" does not resolve to the number of " + x, Input: map[string]string{"annotation": x + ",foo,bar"}, Expect: wantOwn, Actual: got})
			}
		}
	}
}

// c18MarkerForms: the struct-level annotation in each form Go allows its carrier to take - the embedded Tag field the
// package's own types use, an exported named field, the blank field `_ Tag`, an unexported named field - for EVERY tag name
// of the table: Encode must write the struct under the number of that name, and Decode of those bytes must accept them.
func c18MarkerForms(r *Result) {
	tagNum := map[string]uint32{}
	for _, c := range gentab.Consts {
		if c.Typ == "Tag" {
			tagNum[c.Name] = uint32(c.Num)
		}
	}
	tTag := reflect.TypeOf(kmip.Tag(0))
	forms := []struct {
		name string
		f    reflect.StructField
	}{
		{"embedded Tag", reflect.StructField{Name: "Tag", Type: tTag, Anonymous: true}},
		{"exported field T Tag", reflect.StructField{Name: "T", Type: tTag}},
		{"blank field _ Tag", reflect.StructField{Name: "_", PkgPath: "main", Type: tTag}},
		{"unexported field tag Tag", reflect.StructField{Name: "tag", PkgPath: "main", Type: tTag}},
	}
	bad := 0
	// an element type that declares its OWN tag (Activation Date), used under a field annotated with another name: alone and as
	// the element of a repeated field (pointer-typed fields are not supported by the codec) - the field's annotation decides
	elem := reflect.StructOf([]reflect.StructField{
		{Name: "Tag", Type: tTag, Anonymous: true, Tag: `kmip:"ACTIVATION_DATE"`},
		{Name: "V", Type: reflect.TypeOf(int32(0)), Tag: `kmip:"BATCH_COUNT,required"`}})
	for _, kv := range gentab.MapKeys["tagMap"] {
		x := strings.SplitN(kv, "=", 2)[0]
		if x == "-" || x == "ANY_TAG" || tagNum[x] == 0 || x == "ACTIVATION_DATE" {
			continue
		}
		for _, pos := range []string{"single", "repeated"} {
			ft := elem
			switch pos {
			case "pointer":
				ft = reflect.PtrTo(elem)
			case "repeated":
				ft = reflect.SliceOf(elem)
			}
			st := reflect.StructOf([]reflect.StructField{
				{Name: "Tag", Type: tTag, Anonymous: true, Tag: `kmip:"REQUEST_HEADER"`},
				{Name: "F", Type: ft, Tag: reflect.StructTag(fmt.Sprintf(`kmip:"%s"`, x))}})
			v := reflect.New(st)
			one := reflect.New(elem).Elem()
			one.Field(1).SetInt(3)
			switch pos {
			case "single":
				v.Elem().Field(1).Set(one)
			case "pointer":
				p := reflect.New(elem)
				p.Elem().Set(one)
				v.Elem().Field(1).Set(p)
			default:
				v.Elem().Field(1).Set(reflect.Append(reflect.Append(reflect.MakeSlice(ft, 0, 2), one), one))
			}
			res, b, _ := realEncode(v.Interface())
			r.Evaluations++
			r.Stats["field-position-probes"]++
			got := "encode failed: " + res
			if strings.HasPrefix(res, "ok") {
				var tags []string
				for _, k := range mut.Parse(b)[0].Kids {
					tags = append(tags, fmt.Sprintf("%06x", k.Tag))
				}
				got = strings.Join(tags, " ")
			}
			want := fmt.Sprintf("%06x", tagNum[x])
			if pos == "repeated" {
				want += " " + want
			}
			if got != want && bad < 5 {
				bad++
				r.find(Finding{Kind: "violation", What: "the field annotation kmip:\"" + x + "\" on a " + pos + " structure-typed field whose element declares a tag of its own does not resolve to the number of " + x,
					Input: map[string]string{"annotation": x, "field": pos, "element's own annotation": "ACTIVATION_DATE", "bytes": hex.EncodeToString(b)}, Expect: want, Actual: got})
			}
		}
		for fi, form := range forms {
			f := form.f
			f.Tag = reflect.StructTag(fmt.Sprintf(`kmip:"%s"`, x))
			fields := []reflect.StructField{f, {Name: "A", Type: reflect.TypeOf(int32(0)), Tag: `kmip:"BATCH_COUNT,required"`}}
			if fi%2 == 1 { // marker not in first position
				fields[0], fields[1] = fields[1], fields[0]
			}
			st := reflect.StructOf(fields)
			v := reflect.New(st)
			res, b, _ := realEncode(v.Interface())
			r.Evaluations++
			r.Stats["marker-form-probes"]++
			got := "encode failed: " + res
			if strings.HasPrefix(res, "ok") && len(b) >= 8 {
				got = fmt.Sprintf("%06x", uint32(b[0])<<16|uint32(b[1])<<8|uint32(b[2]))
				// the conforming bytes, written by hand, must also be accepted under that annotation
				msg := append([]byte{byte(tagNum[x] >> 16), byte(tagNum[x] >> 8), byte(tagNum[x]), 1, 0, 0, 0, 16}, 0x42, 0x00, 0x0d, 2, 0, 0, 0, 4, 0, 0, 0, 5, 0, 0, 0, 0)
				tgt := reflect.New(st)
				var err error
				func() {
					defer func() {
						if p := recover(); p != nil {
							err = fmt.Errorf("panic: %v", p)
						}
					}()
					err = kmip.NewDecoder(bytes.NewReader(msg)).Decode(tgt.Interface())
				}()
				if err != nil && got == fmt.Sprintf("%06x", tagNum[x]) {
					got += "; Decode of a conforming item: " + err.Error()
				}
			}
			if got != fmt.Sprintf("%06x", tagNum[x]) && bad < 5 {
				bad++
				r.find(Finding{Kind: "violation", What: "the struct annotation kmip:\"" + x + "\" carried by " + form.name + " does not resolve to the number of " + x,
					Input: map[string]string{"annotation": x, "carrier": form.name}, Expect: fmt.Sprintf("%06x", tagNum[x]), Actual: got})
			}
		}
	}
}

// c19WireBig: the nesting of LARGE messages (a value of 4..20 KiB, hundreds of items: 5..40 KiB in all). Each is encoded by the
// real Encode; the bytes must parse as ONE well-nested item spanning everything, every structure's declared length must be
// exactly the space its children take, and the tree of tags must be the tree the independent serializer of the harness
// (altenc.go, which never calls Encode) produces for the same value: every field under the structure KMIP puts it in.
func c19WireBig(r *Result) {
	var shape func(ns []*mut.Node, sb *strings.Builder) bool
	shape = func(ns []*mut.Node, sb *strings.Builder) bool {
		ok := true
		for _, n := range ns {
			fmt.Fprintf(sb, "%06x:%d", n.Tag, n.Typ)
			if n.Typ == 1 {
				used := 0
				for _, k := range n.Kids {
					used += k.End - k.Off
				}
				if used != int(n.Len) {
					ok = false
					fmt.Fprintf(sb, "!len=%d,children=%d", n.Len, used)
				}
				sb.WriteString("(")
				if !shape(n.Kids, sb) {
					ok = false
				}
				sb.WriteString(")")
			}
			sb.WriteString(" ")
		}
		return ok
	}
	// ... and small messages whose dynamically typed positions (attribute value, credential value, payloads) hold the structures
	// the package models, by value and by pointer: the structure must appear as a structure, under the position's tag, with its
	// own fields inside
	name, digest := kmip.Name{Value: "k", Type: 1}, kmip.Digest{HashingAlgorithm: 6, DigestValue: []byte{1, 2, 3}, KeyFormatType: 1}
	cred := kmip.CredentialUsernamePassword{Username: "u", Password: "p"}
	ver := kmip.ProtocolVersion{Major: 1, Minor: 4}
	cases := bigCases()
	for _, top := range []interface{}{
		&kmip.Attribute{Name: kmip.ATTRIBUTE_NAME_NAME, Value: name}, &kmip.Attribute{Name: kmip.ATTRIBUTE_NAME_NAME, Value: &name},
		&kmip.Attribute{Name: kmip.ATTRIBUTE_NAME_DIGEST, Value: digest}, &kmip.Attribute{Name: kmip.ATTRIBUTE_NAME_DIGEST, Value: &digest},
		&kmip.Authentication{CredentialType: kmip.CREDENTIAL_TYPE_USERNAME_AND_PASSWORD, CredentialValue: cred},
		&kmip.Authentication{CredentialType: kmip.CREDENTIAL_TYPE_USERNAME_AND_PASSWORD, CredentialValue: &cred},
		&kmip.Request{Header: kmip.RequestHeader{Version: ver, BatchCount: 1, Authentication: kmip.Authentication{CredentialType: kmip.CREDENTIAL_TYPE_USERNAME_AND_PASSWORD, CredentialValue: cred}},
			BatchItems: []kmip.RequestBatchItem{{Operation: kmip.OPERATION_CREATE, RequestPayload: kmip.CreateRequest{ObjectType: kmip.OBJECT_TYPE_SYMMETRIC_KEY,
				TemplateAttribute: kmip.TemplateAttribute{Name: name, Attributes: kmip.Attributes{{Name: kmip.ATTRIBUTE_NAME_NAME, Value: name}, {Name: kmip.ATTRIBUTE_NAME_DIGEST, Value: &digest}}}}}}},
		&kmip.Response{Header: kmip.ResponseHeader{Version: ver, TimeStamp: time.Unix(1000000000, 0), BatchCount: 1},
			BatchItems: []kmip.ResponseBatchItem{{Operation: kmip.OPERATION_GET_ATTRIBUTES, ResponsePayload: &kmip.GetAttributesResponse{UniqueIdentifier: "k", Attributes: kmip.Attributes{{Name: kmip.ATTRIBUTE_NAME_NAME, Value: name}}}}}},
	} {
		cases = append(cases, encCase{typ: reflect.TypeOf(top).Elem().Name(), top: top})
	}
	for _, c := range cases {
		res, b, _ := realEncode(c.top)
		r.Evaluations++
		r.Stats["c19wire-big"]++
		key := fmt.Sprintf("%s of %d bytes", c.typ, len(b))
		if len(b) < 1024 {
			key = fmt.Sprintf("%s %x", c.typ, b)
		}
		if !strings.HasPrefix(res, "ok") {
			r.find(Finding{Kind: "violation", What: "a well-formed message could not be encoded", Input: key, Actual: res})
			continue
		}
		ref, ok := altEncode(c.top, altOpts{})
		if !ok {
			continue
		}
		var got, want strings.Builder
		top := mut.Parse(b)
		wellNested := shape(top, &got)
		shape(mut.Parse(ref), &want)
		if len(top) != 1 || top[0].End != len(b) || !wellNested || got.String() != want.String() {
			g, w := got.String(), want.String()
			i := 0
			for i < len(g) && i < len(w) && g[i] == w[i] {
				i++
			}
			from := i - 60
			if from < 0 {
				from = 0
			}
			r.find(Finding{Kind: "violation", What: "a large message is not nested as KMIP nests it (structure lengths do not enclose their fields / fields appear at another level)",
				Input:  map[string]string{"message": key, "first 64 bytes": hex.EncodeToString(b[:64])},
				Expect: fmt.Sprintf("one item spanning %d bytes; tag tree …%s", len(b), w[from:min(len(w), i+80)]),
				Actual: fmt.Sprintf("%d top-level item(s), first ends at %d; tag tree …%s", len(top), func() int {
					if len(top) > 0 {
						return top[0].End
					}
					return 0
				}(), g[from:min(len(g), i+80)])})
		}
	}
}

// c19Reuse: values that came out of Decode are Go values like any other - an application takes the Private Key
// Template-Attribute of a Create Key Pair response and registers the key with it, takes the Name structure out of an attribute
// and puts it into a Template-Attribute. Wherever a value is put, Encode must write it under the tag of THAT position
// (nothing a value "remembers" from the place it was received at may decide its tag). Messages are encoded, decoded, and then
// (a) two fields of the same structure type inside one structure are swapped, (b) structures received in one position are
// moved to a position with another tag in another message; each result is encoded and its (tag, type) tree compared with the
// independent serializer's for the same value.
func c19Reuse(r *Result) {
	var shape func(ns []*mut.Node, sb *strings.Builder)
	shape = func(ns []*mut.Node, sb *strings.Builder) {
		for _, n := range ns {
			fmt.Fprintf(sb, "%06x:%d", n.Tag, n.Typ)
			if n.Typ == 1 {
				sb.WriteString("(")
				shape(n.Kids, sb)
				sb.WriteString(")")
			}
			sb.WriteString(" ")
		}
	}
	compare := func(what string, v interface{}) {
		res, b, _ := realEncode(v)
		r.Evaluations++
		r.Stats["c19reuse"]++
		if !strings.HasPrefix(res, "ok") {
			r.find(Finding{Kind: "violation", What: "a message assembled from decoded values could not be encoded", Input: what, Actual: res})
			return
		}
		ref, ok := altEncode(v, altOpts{})
		if !ok {
			return
		}
		var got, want strings.Builder
		shape(mut.Parse(b), &got)
		shape(mut.Parse(ref), &want)
		if got.String() != want.String() {
			r.find(Finding{Kind: "violation", What: "a value taken out of a decoded message and placed elsewhere was not written under the tag of its new position",
				Input: map[string]string{"scenario": what, "encoded": hx(b[:min(len(b), 400)])}, Expect: want.String()[:min(want.Len(), 600)], Actual: got.String()[:min(got.Len(), 600)]})
		}
	}
	roundTrip := func(v interface{}) interface{} {
		var eb bytes.Buffer
		if err := kmip.NewEncoder(&eb).Encode(v); err != nil {
			return nil
		}
		out := reflect.New(reflect.TypeOf(v).Elem())
		if err := kmip.NewDecoder(bytes.NewReader(eb.Bytes())).Decode(out.Interface()); err != nil {
			return nil
		}
		return out.Interface()
	}
	name, digest := kmip.Name{Value: "k1", Type: 1}, kmip.Digest{HashingAlgorithm: 6, DigestValue: []byte{1, 2, 3}, KeyFormatType: 1}
	ta := func(n string) kmip.TemplateAttribute {
		return kmip.TemplateAttribute{Name: kmip.Name{Value: n, Type: 1}, Attributes: kmip.Attributes{{Name: kmip.ATTRIBUTE_NAME_NAME, Value: kmip.Name{Value: n + "-attr", Type: 1}}, {Name: kmip.ATTRIBUTE_NAME_CRYPTOGRAPHIC_LENGTH, Value: int32(2048)}}}
	}
	ver := kmip.ProtocolVersion{Major: 1, Minor: 4}
	// (b) across messages
	if v := roundTrip(&kmip.Response{Header: kmip.ResponseHeader{Version: ver, TimeStamp: time.Unix(1000000000, 0), BatchCount: 1},
		BatchItems: []kmip.ResponseBatchItem{{Operation: kmip.OPERATION_CREATE_KEY_PAIR, ResponsePayload: kmip.CreateKeyPairResponse{PrivateKeyUniqueIdentifier: "priv", PublicKeyUniqueIdentifier: "pub",
			PrivateKeyTemplateAttribute: ta("p"), PublicKeyTemplateAttribute: ta("q")}}}}); v != nil {
		if kp, ok := v.(*kmip.Response).BatchItems[0].ResponsePayload.(kmip.CreateKeyPairResponse); ok {
			compare("Register request whose Template-Attribute is the Private Key Template-Attribute received in a Create Key Pair response",
				&kmip.Request{Header: kmip.RequestHeader{Version: ver, BatchCount: 1}, BatchItems: []kmip.RequestBatchItem{{Operation: kmip.OPERATION_REGISTER,
					RequestPayload: kmip.RegisterRequest{ObjectType: kmip.OBJECT_TYPE_PRIVATE_KEY, TemplateAttribute: kp.PrivateKeyTemplateAttribute}}}})
			compare("Create Key Pair request whose Common / Private / Public Template-Attributes are the Public / Public / Private ones received",
				&kmip.Request{Header: kmip.RequestHeader{Version: ver, BatchCount: 1}, BatchItems: []kmip.RequestBatchItem{{Operation: kmip.OPERATION_CREATE_KEY_PAIR,
					RequestPayload: kmip.CreateKeyPairRequest{CommonTemplateAttribute: kp.PublicKeyTemplateAttribute, PrivateKeyTemplateAttribute: kp.PublicKeyTemplateAttribute, PublicKeyTemplateAttribute: kp.PrivateKeyTemplateAttribute}}}})
			if len(kp.PrivateKeyTemplateAttribute.Attributes) > 0 {
				if n, ok := kp.PrivateKeyTemplateAttribute.Attributes[0].Value.(kmip.Name); ok {
					compare("Template-Attribute whose Name is the Name structure received as an Attribute Value", &kmip.TemplateAttribute{Name: n})
					compare("Attribute whose value is the Name received as a Template-Attribute's Name", &kmip.Attribute{Name: kmip.ATTRIBUTE_NAME_NAME, Value: kp.PublicKeyTemplateAttribute.Name})
				} else {
					r.find(Finding{Kind: "disagreement", What: "c19Reuse: the decoded attribute value is no kmip.Name", Actual: fmt.Sprintf("%T", kp.PrivateKeyTemplateAttribute.Attributes[0].Value)})
				}
			}
		}
	} else {
		r.find(Finding{Kind: "disagreement", What: "c19Reuse: the Create Key Pair response did not round-trip"})
	}
	if v := roundTrip(&kmip.Attribute{Name: kmip.ATTRIBUTE_NAME_DIGEST, Value: digest}); v != nil {
		if d, ok := v.(*kmip.Attribute).Value.(kmip.Digest); ok {
			compare("a Digest structure received as an Attribute Value, encoded on its own", &d)
		}
	}
	_ = name
	// (a) inside one structure: every pair of same-typed structure fields of every decoded big / small case swapped
	var swapAll func(rv reflect.Value) int
	swapAll = func(rv reflect.Value) int {
		n := 0
		switch rv.Kind() {
		case reflect.Ptr, reflect.Interface:
			if !rv.IsNil() {
				n += swapAll(rv.Elem())
			}
		case reflect.Slice:
			for i := 0; i < rv.Len(); i++ {
				n += swapAll(rv.Index(i))
			}
		case reflect.Struct:
			if rv.Type() == reflect.TypeOf(time.Time{}) {
				return 0
			}
			first := map[reflect.Type]int{}
			for i := 0; i < rv.NumField(); i++ {
				f := rv.Field(i)
				if f.Kind() == reflect.Struct && f.Type() != reflect.TypeOf(time.Time{}) && f.CanSet() {
					if j, seen := first[f.Type()]; seen {
						tmp := reflect.New(f.Type()).Elem()
						tmp.Set(f)
						f.Set(rv.Field(j))
						rv.Field(j).Set(tmp)
						n++
						delete(first, f.Type())
					} else {
						first[f.Type()] = i
					}
				}
			}
			for i := 0; i < rv.NumField(); i++ {
				if rv.Field(i).CanSet() {
					n += swapAll(rv.Field(i))
				}
			}
		}
		return n
	}
	g := gen.New(977)
	g.WF = true
	types := gen.StructTypes()
	for _, tn := range []string{"Request", "Response", "CreateKeyPairRequest", "CreateKeyPairResponse", "KeyBlock", "TemplateAttribute"} {
		for k := 0; k < 12; k++ {
			p := g.NewStruct(types[tn])
			v := roundTrip(p.Interface())
			if v == nil {
				continue
			}
			if swapAll(reflect.ValueOf(v)) > 0 {
				compare(fmt.Sprintf("a decoded %s in which same-typed structure fields were swapped", tn), v)
			}
		}
	}
}

// gateWriter blocks inside its k-th Write call - before looking at the bytes it was handed, as a connection whose peer is slow
// does - until released.
type gateWriter struct {
	buf     bytes.Buffer
	n, k    int
	entered chan struct{}
	release chan struct{}
}

func (w *gateWriter) Write(p []byte) (int, error) {
	w.n++
	if w.n == w.k {
		close(w.entered)
		<-w.release
	}
	return w.buf.Write(p)
}

// c19Concurrent: what an Encoder writes depends on the value and on nothing else - in particular not on what OTHER Encoders
// (other sessions of a Server, other Clients of the process) write at the same time. For each pair of messages A, B and each
// Write call k that encoding A makes: A's destination blocks inside its k-th Write, B is encoded meanwhile by another
// Encoder, the destination is released: both outputs are the bytes of the sequential encodings - every item under its own tag.
// Then 8 goroutines encode the messages over and over at once.
func c19Concurrent(r *Result) {
	ver := kmip.ProtocolVersion{Major: 1, Minor: 4}
	msgs := []interface{}{
		&kmip.Request{Header: kmip.RequestHeader{Version: ver, BatchCount: 1}, BatchItems: []kmip.RequestBatchItem{{Operation: kmip.OPERATION_GET, RequestPayload: kmip.GetRequest{UniqueIdentifier: "49a1ca88-6bea-4fb2-b450-7e58802c3038"}}}},
		&kmip.Response{Header: kmip.ResponseHeader{Version: ver, TimeStamp: time.Unix(1000000000, 0), BatchCount: 1},
			BatchItems: []kmip.ResponseBatchItem{{Operation: kmip.OPERATION_DESTROY, ResultStatus: kmip.RESULT_STATUS_SUCCESS, ResponsePayload: kmip.DestroyResponse{UniqueIdentifier: "fb4b5b9c-6188-4c63-8142-fe9c328129fc"}}}},
		func() interface{} {
			kb := &kmip.KeyBlock{FormatType: 1, CryptographicLength: 128}
			kb.WrappingData.WrappingMethod = 1
			return kb
		}(),
		&kmip.TemplateAttribute{Name: kmip.Name{Value: "n", Type: 1}, Attributes: kmip.Attributes{{Name: kmip.ATTRIBUTE_NAME_CRYPTOGRAPHIC_LENGTH, Value: int32(2048)}}},
	}
	var want [][]byte
	var writes []int
	for _, m := range msgs {
		cw := &gateWriter{k: -1}
		if err := kmip.NewEncoder(cw).Encode(m); err != nil {
			r.find(Finding{Kind: "disagreement", What: "c19Concurrent: a scenario message does not encode", Actual: err.Error()})
			return
		}
		want = append(want, append([]byte(nil), cw.buf.Bytes()...))
		writes = append(writes, cw.n)
	}
	bad := 0
	for a := range msgs {
		for b := range msgs {
			for k := 1; k <= writes[a]; k++ {
				key := fmt.Sprintf("%T encoded into a destination that blocks in Write call %d of %d while another Encoder encodes a %T", msgs[a], k, writes[a], msgs[b])
				r.eval(key, true)
				gw := &gateWriter{k: k, entered: make(chan struct{}), release: make(chan struct{})}
				done := make(chan error, 1)
				go func() { done <- kmip.NewEncoder(gw).Encode(msgs[a]) }()
				select {
				case <-gw.entered:
				case <-time.After(3 * time.Second):
					r.find(Finding{Kind: "disagreement", What: "c19Concurrent: the encoder did not reach the Write call", Input: key})
					close(gw.release)
					<-done
					continue
				}
				var bb bytes.Buffer
				errB := kmip.NewEncoder(&bb).Encode(msgs[b])
				close(gw.release)
				errA := <-done
				r.Stats["concurrent-encoder-interleavings"]++
				if (errA != nil || errB != nil || !bytes.Equal(gw.buf.Bytes(), want[a]) || !bytes.Equal(bb.Bytes(), want[b])) && bad < 4 {
					bad++
					r.find(Finding{Kind: "violation", What: "an item was written under another tag / type / length than its own because another Encoder was active at the same time",
						Input: key, Expect: hx(want[a]) + " | " + hx(want[b]), Actual: fmt.Sprintf("%s | %s (errors %v, %v)", hx(gw.buf.Bytes()), hx(bb.Bytes()), errA, errB)})
				}
			}
		}
	}
	// free-running
	var wg sync.WaitGroup
	var wrong int32
	var first atomic.Value
	for g := 0; g < 8; g++ {
		wg.Add(1)
		go func(g int) {
			defer wg.Done()
			for i := 0; i < 400; i++ {
				j := (g + i) % len(msgs)
				var bb bytes.Buffer
				if err := kmip.NewEncoder(&bb).Encode(msgs[j]); err != nil || !bytes.Equal(bb.Bytes(), want[j]) {
					if atomic.AddInt32(&wrong, 1) == 1 {
						first.Store(fmt.Sprintf("%T: %s (err %v)", msgs[j], hx(bb.Bytes()), err))
					}
				}
			}
		}(g)
	}
	wg.Wait()
	r.Evaluations += 8 * 400
	if wrong > 0 {
		r.find(Finding{Kind: "violation", What: "Encoders running at the same time in different goroutines produced other bytes than they produce one after the other", Input: "8 goroutines x 400 messages", Actual: fmt.Sprintf("%d wrong outputs; first: %v", wrong, first.Load())})
	}
}

// c18Repeated: what an annotation resolves to does not depend on the OTHER annotations of the struct. For every tag name, a
// struct with two fields annotated with that same name (Replace Existing / Replacement style pairs; and, for names sharing a
// number - the three batch-item aliases -, one field under each name): Encode writes two items under the number of the name,
// Decode hands them back to the two fields in order.
func c18Repeated(r *Result) {
	tagNum := map[string]uint32{}
	for _, c := range gentab.Consts {
		if c.Typ == "Tag" {
			tagNum[c.Name] = uint32(c.Num)
		}
	}
	var names []string
	for _, kv := range gentab.MapKeys["tagMap"] {
		names = append(names, strings.SplitN(kv, "=", 2)[0])
	}
	byNum := map[uint32][]string{}
	for _, n := range names {
		if n != "-" && n != "ANY_TAG" && tagNum[n] != 0 {
			byNum[tagNum[n]] = append(byNum[tagNum[n]], n)
		}
	}
	item := func(tag uint32, v byte) []byte {
		return []byte{byte(tag >> 16), byte(tag >> 8), byte(tag), 2, 0, 0, 0, 4, 0, 0, 0, v, 0, 0, 0, 0}
	}
	bad := 0
	probe := func(x, y string) {
		st := reflect.StructOf([]reflect.StructField{
			{Name: "Tag", Type: reflect.TypeOf(kmip.Tag(0)), Tag: `kmip:"ACTIVATION_DATE"`, Anonymous: true},
			{Name: "A", Type: reflect.TypeOf(int32(0)), Tag: reflect.StructTag(fmt.Sprintf(`kmip:"%s,required"`, x))},
			{Name: "B", Type: reflect.TypeOf(int32(0)), Tag: reflect.StructTag(fmt.Sprintf(`kmip:"%s"`, y))},
		})
		v := reflect.New(st)
		v.Elem().Field(1).SetInt(7)
		v.Elem().Field(2).SetInt(9)
		want := append([]byte{0x42, 0x00, 0x01, 0x01, 0, 0, 0, 32}, append(item(tagNum[x], 7), item(tagNum[y], 9)...)...)
		out, _, _ := realEncode(v.Interface())
		r.Evaluations++
		if out != "ok "+hx(want) && bad < 5 {
			bad++
			r.find(Finding{Kind: "violation", What: "annotations kmip:\"" + x + "\" and kmip:\"" + y + "\" on two fields of one struct do not both resolve to the number of the name",
				Input: map[string]string{"field A": x + ",required", "field B": y}, Expect: "ok " + hx(want), Actual: out})
			return
		}
		tgt := reflect.New(st)
		var err error
		func() {
			defer func() {
				if p := recover(); p != nil {
					err = fmt.Errorf("panic: %v", p)
				}
			}()
			err = kmip.NewDecoder(bytes.NewReader(want)).Decode(tgt.Interface())
		}()
		if (err != nil || tgt.Elem().Field(1).Int() != 7 || tgt.Elem().Field(2).Int() != 9) && bad < 5 {
			bad++
			r.find(Finding{Kind: "violation", What: "two items under the number of " + x + " are not decoded into the two fields annotated kmip:\"" + x + "\" / kmip:\"" + y + "\"",
				Input: map[string]string{"message": hx(want)}, Expect: "A = 7, B = 9, no error", Actual: fmt.Sprintf("A = %d, B = %d, err = %v", tgt.Elem().Field(1).Int(), tgt.Elem().Field(2).Int(), err)})
		}
	}
	n := 0
	for _, x := range names {
		if x == "-" || x == "ANY_TAG" || tagNum[x] == 0 {
			continue
		}
		for _, y := range byNum[tagNum[x]] {
			probe(x, y)
			n++
		}
	}
	r.Stats["annotation-repeated-in-one-struct-probes"] = n
}

// embedded structs: a struct type embedding another struct type that has a marker of its own. The codec has never looked
// inside unannotated embedded fields; whether it does or not, the OUTER type's annotation is the outer type's.
type TEmbInnerAttr struct {
	kmip.Tag `kmip:"ATTRIBUTE"`
	V        int32 `kmip:"ATTRIBUTE_INDEX"`
}
type TEmbInnerName struct {
	kmip.Tag `kmip:"NAME"`
	V        int32 `kmip:"ATTRIBUTE_INDEX"`
}
type TEmbOuterA struct {
	kmip.Tag `kmip:"TEMPLATE_ATTRIBUTE"`
	A        int32 `kmip:"BATCH_COUNT,required"`
	TEmbInnerAttr
}
type TEmbOuterB struct {
	kmip.Tag `kmip:"REQUEST_HEADER"`
	TEmbInnerName
	A int32 `kmip:"BATCH_COUNT,required"`
}
type TEmbOuterC struct {
	kmip.Tag `kmip:"KEY_BLOCK"`
	A        int32 `kmip:"BATCH_COUNT,required"`
	TEmbInnerAttr
	TEmbInnerName
}

// c18Embedded: the struct annotation of a type that embeds other annotated struct types resolves to ITS name's number: Encode
// writes the outer structure under it, and Decode accepts those bytes back.
func c18Embedded(r *Result) {
	for _, c := range []struct {
		v    interface{}
		name string
		tag  uint32
	}{
		{&TEmbOuterA{A: 5, TEmbInnerAttr: TEmbInnerAttr{V: 1}}, "TEMPLATE_ATTRIBUTE", uint32(kmip.TEMPLATE_ATTRIBUTE)},
		{&TEmbOuterB{A: 5, TEmbInnerName: TEmbInnerName{V: 1}}, "REQUEST_HEADER", uint32(kmip.REQUEST_HEADER)},
		{&TEmbOuterC{A: 5}, "KEY_BLOCK", uint32(kmip.KEY_BLOCK)},
	} {
		key := fmt.Sprintf("struct annotation kmip:%q on a type embedding annotated struct types (%T)", c.name, c.v)
		r.eval(key, true)
		out, written, _ := realEncode(c.v)
		r.Stats["embedded-marker-probes"]++
		if !strings.HasPrefix(out, "ok") || len(written) < 8 {
			r.find(Finding{Kind: "violation", What: "a struct embedding annotated struct types could not be encoded", Input: key, Actual: out})
			continue
		}
		got := uint32(written[0])<<16 | uint32(written[1])<<8 | uint32(written[2])
		if got != c.tag {
			r.find(Finding{Kind: "violation", What: "the struct annotation kmip:\"" + c.name + "\" does not resolve to the number of " + c.name + ": an embedded type's annotation took its place", Input: key,
				Expect: fmt.Sprintf("%06x", c.tag), Actual: fmt.Sprintf("%06x (%s)", got, hx(written))})
			continue
		}
		tgt := reflect.New(reflect.TypeOf(c.v).Elem())
		if err := kmip.NewDecoder(bytes.NewReader(written)).Decode(tgt.Interface()); err != nil {
			r.find(Finding{Kind: "violation", What: "bytes written for a struct embedding annotated struct types are not accepted back", Input: key, Actual: err.Error()})
		}
	}
}

// partialWriter accepts only the first `take` bytes of its k-th Write and reports a fault (temporary or not); every other
// Write goes through.
type partialWriter struct {
	buf     bytes.Buffer
	n, k    int
	take    int
	err     error
	tripped bool
}

func (w *partialWriter) Write(p []byte) (int, error) {
	w.n++
	if w.n == w.k {
		w.tripped = true
		t := w.take
		if t > len(p) {
			t = len(p)
		}
		w.buf.Write(p[:t])
		return t, w.err
	}
	return w.buf.Write(p)
}

// c19WriteFaults: a destination that takes part of one Write and reports a fault - a temporary net.Error, a timeout, a plain
// error. Whatever Encode does about it: if it reports success, what the destination holds IS the message - every item under its
// tag at its level, byte for byte the fault-free encoding; if it reports the error, what the destination holds is a prefix of it.
func c19WriteFaults(r *Result) {
	ver := kmip.ProtocolVersion{Major: 1, Minor: 4}
	msgs := []interface{}{
		&kmip.Request{Header: kmip.RequestHeader{Version: ver, BatchCount: 1}, BatchItems: []kmip.RequestBatchItem{{Operation: kmip.OPERATION_GET, RequestPayload: kmip.GetRequest{UniqueIdentifier: "49a1ca88-6bea-4fb2-b450-7e58802c3038"}}}},
		&kmip.Response{Header: kmip.ResponseHeader{Version: ver, TimeStamp: time.Unix(1000000000, 0), BatchCount: 1},
			BatchItems: []kmip.ResponseBatchItem{{Operation: kmip.OPERATION_DESTROY, ResultStatus: kmip.RESULT_STATUS_SUCCESS, ResponsePayload: kmip.DestroyResponse{UniqueIdentifier: "fb4b5b9c"}}}},
	}
	faults := []struct {
		name string
		err  error
	}{{"a temporary net.Error", tempNetErr{false}}, {"a temporary timeout", tempNetErr{true}}, {"io.ErrShortWrite", io.ErrShortWrite}, {"a plain error", fmt.Errorf("disk full")}}
	bad := 0
	for _, m := range msgs {
		ref := &partialWriter{k: -1}
		if err := kmip.NewEncoder(ref).Encode(m); err != nil {
			r.find(Finding{Kind: "disagreement", What: "c19WriteFaults: a scenario message does not encode", Actual: err.Error()})
			return
		}
		want := append([]byte(nil), ref.buf.Bytes()...)
		for k := 1; k <= ref.n; k++ {
			for _, take := range []int{0, 1, 3, 7} {
				for _, ft := range faults {
					key := fmt.Sprintf("%T encoded into a destination whose Write call %d of %d takes %d byte(s) and reports %s", m, k, ref.n, take, ft.name)
					r.eval(key, true)
					pw := &partialWriter{k: k, take: take, err: ft.err}
					err := kmip.NewEncoder(pw).Encode(m)
					r.Stats["write-fault-encodes"]++
					got := pw.buf.Bytes()
					switch {
					case err == nil && !bytes.Equal(got, want) && bad < 4:
						bad++
						r.find(Finding{Kind: "violation", What: "Encode reported success but what reached the destination is not the message: items no longer under their tags / at their levels", Input: key, Expect: hx(want), Actual: hx(got)})
					case err != nil && !bytes.HasPrefix(want, got) && bad < 4:
						bad++
						r.find(Finding{Kind: "violation", What: "after a failed write the destination holds bytes that are no prefix of the message", Input: key, Expect: "a prefix of " + hx(want), Actual: hx(got)})
					}
				}
			}
		}
	}
}
