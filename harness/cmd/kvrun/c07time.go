package main

import (
	"context"
	"fmt"
	"time"

	kmip "github.com/smira/go-kmip"

	"kvharness/internal/rec"
)

// c07Timestamp: "each response bears the server's current time". KMIP Date-Time has one-second granularity, so a stale time
// stamp only shows after the connection has been idle for more than a second: one connection, idle 1.2 s before the first
// request and again before the third; every response's Time Stamp must lie between the second in which the request was sent
// and the moment the response was received.
func c07Timestamp(r *Result) {
	s := &kmip.Server{}
	sc, cc := rec.Pipe()
	l := rec.NewListener()
	l.Push(rec.AcceptStep{Conn: rec.NewConn(sc, 1)})
	init := make(chan struct{})
	ret := make(chan error, 1)
	go func() { ret <- s.Serve(l, init) }()
	<-init
	_ = cc.SetDeadline(time.Now().Add(10 * time.Second))
	enc, dec := kmip.NewEncoder(cc), kmip.NewDecoder(cc)
	for i, idle := range []time.Duration{1200 * time.Millisecond, 0, 1200 * time.Millisecond} {
		time.Sleep(idle)
		key := fmt.Sprintf("time-stamp of response %d after %v idle", i, idle)
		r.eval(key, true)
		req := kmip.Request{Header: kmip.RequestHeader{Version: kmip.ProtocolVersion{Major: 1, Minor: 4}, BatchCount: 1},
			BatchItems: []kmip.RequestBatchItem{{Operation: kmip.OPERATION_DISCOVER_VERSIONS, RequestPayload: kmip.DiscoverVersionsRequest{}}}}
		sent := time.Now()
		var resp kmip.Response
		err := enc.Encode(&req)
		if err == nil {
			err = dec.Decode(&resp)
		}
		got := time.Now()
		if err != nil {
			r.find(Finding{Kind: "violation", What: "no response in the time-stamp scenario", Input: key, Actual: err.Error()})
			break
		}
		ts := resp.Header.TimeStamp
		if ts.Unix() < sent.Unix() || ts.After(got.Add(time.Second)) {
			r.find(Finding{Kind: "violation", What: "the response does not bear the server's current time", Input: key,
				Expect: fmt.Sprintf("between %s and %s", sent.UTC().Format(time.RFC3339), got.UTC().Format(time.RFC3339)), Actual: ts.UTC().Format(time.RFC3339)})
		}
	}
	cc.Close()
	ctx, cancel := context.WithTimeout(context.Background(), 5*time.Second)
	_ = s.Shutdown(ctx)
	cancel()
	<-ret
	r.Stats["time-stamp-scenarios"]++
}
