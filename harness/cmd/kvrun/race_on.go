//go:build race

package main

func init() { raceEnabled = true }
