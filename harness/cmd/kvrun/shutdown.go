package main

import (
	"bytes"
	"context"
	"crypto/tls"
	"fmt"
	"net"
	"strings"
	"sync"
	"sync/atomic"
	"time"

	kmip "github.com/smira/go-kmip"

	"kvharness/internal/drv"
	"kvharness/internal/rec"
	"kvharness/internal/tlsm"
)

// ---- C11: Shutdown schedules replayed on the real server ------------------------------------------------------

func init() { props["C11"] = runC11 }

type sdConn struct {
	rc       *rec.Conn
	cc       *rec.MemConn
	started  int64 // sequence number of the session start (0 = not started)
	closed   int64 // sequence number of the server-side close (0 = open)
	inflight chan struct{}
	entered  chan struct{}
	clientOK bool
}

type sdRun struct {
	s        *kmip.Server
	l        *rec.Listener
	seq      int64
	mu       sync.Mutex
	conns    []*sdConn
	byID     map[int]*sdConn
	sdRet    chan error
	sdResult *error
	sdSeq    int64
	sdCalled bool
	cancel   context.CancelFunc
	ctx      context.Context
	serveRet chan error
	viol     []string
}

func (r *sdRun) tick() int64 { return atomic.AddInt64(&r.seq, 1) }

func (r *sdRun) callShutdown() {
	r.sdCalled = true
	go func() {
		err := r.s.Shutdown(r.ctx)
		r.mu.Lock()
		r.sdSeq = r.tick()
		r.sdResult = &err
		r.mu.Unlock()
		r.sdRet <- err
	}()
	for i := 0; i < 5000 && !r.l.IsClosed(); i++ {
		time.Sleep(200 * time.Microsecond)
	}
}

func waitFor(cond func() bool, d time.Duration) bool {
	end := time.Now().Add(d)
	for time.Now().Before(end) {
		if cond() {
			return true
		}
		time.Sleep(200 * time.Microsecond)
	}
	return cond()
}

func runShutdownSchedule(acts []string) (obs string, viol []string) {
	r := &sdRun{s: &kmip.Server{}, l: rec.NewListener(), byID: map[int]*sdConn{}, sdRet: make(chan error, 1), serveRet: make(chan error, 1)}
	r.ctx, r.cancel = context.WithCancel(context.Background())
	defer r.cancel()
	cancelled := false
	r.s.SessionAuthHandler = func(c net.Conn) (interface{}, error) {
		rc := c.(*rec.Conn)
		r.mu.Lock()
		sc := r.byID[rc.ID]
		sc.started = r.tick()
		if r.sdResult != nil && *r.sdResult == nil {
			r.viol = append(r.viol, fmt.Sprintf("session %d started after Shutdown had returned nil", rc.ID))
		}
		r.mu.Unlock()
		return nil, nil
	}
	r.s.Handle(kmip.OPERATION_ACTIVATE, func(ctx *kmip.RequestContext, item *kmip.RequestBatchItem) (interface{}, error) {
		var sid int
		fmt.Sscanf(ctx.SessionID, "%x", &sid)
		r.mu.Lock()
		// session numbers follow accept order of connections that were registered
		var sc *sdConn
		n := 0
		for _, c := range r.conns {
			if c.started != 0 {
				n++
				if n == sid {
					sc = c
				}
			}
		}
		r.mu.Unlock()
		if sc != nil && sc.inflight != nil {
			close(sc.entered)
			<-sc.inflight
		}
		return kmip.ActivateResponse{UniqueIdentifier: "done"}, nil
	})
	init := make(chan struct{})
	go func() { r.serveRet <- r.s.Serve(r.l, init) }()
	<-init
	newConn := func() *sdConn {
		sc, cc := rec.Pipe()
		c := &sdConn{rc: rec.NewConn(sc, len(r.conns)+1), cc: cc}
		r.mu.Lock()
		r.conns = append(r.conns, c)
		r.byID[c.rc.ID] = c
		r.mu.Unlock()
		c.rc.OnClose = func() {
			// a Close that takes a while (TLS close_notify to a slow peer): whatever the server does after the session
			// is accounted as ended but before Close returns would be visible as "Shutdown returned before close"
			time.Sleep(3 * time.Millisecond)
			r.mu.Lock()
			c.closed = r.tick()
			r.mu.Unlock()
		}
		return c
	}
	isStarted := func(c *sdConn) bool { r.mu.Lock(); defer r.mu.Unlock(); return c.started != 0 }
	isClosed := func(c *sdConn) bool { r.mu.Lock(); defer r.mu.Unlock(); return c.closed != 0 }
	pick := func(f func(c *sdConn) bool) *sdConn {
		for _, c := range r.conns {
			if f(c) {
				return c
			}
		}
		return nil
	}
	open := func(c *sdConn) bool { return isStarted(c) && !isClosed(c) }
	for _, a := range acts {
		switch a {
		case "A":
			c := newConn()
			r.l.Push(rec.AcceptStep{Conn: c.rc})
			if !waitFor(func() bool { return isStarted(c) }, 3*time.Second) {
				viol = append(viol, "an arriving connection was not served")
			}
		case "L":
			c := newConn()
			r.l.Push(rec.AcceptStep{Conn: c.rc, Before: r.callShutdown})
			if !waitFor(func() bool { return isClosed(c) || isStarted(c) }, 3*time.Second) {
				viol = append(viol, "a connection accepted while Shutdown was landing was neither served nor closed")
			}
			if isStarted(c) {
				viol = append(viol, "a session was started although Shutdown had been signalled before its registration")
			}
		case "Q":
			c := pick(func(c *sdConn) bool { return open(c) && c.inflight == nil })
			if c == nil {
				return "invalid", nil
			}
			c.inflight, c.entered = make(chan struct{}), make(chan struct{})
			req := kmip.Request{Header: kmip.RequestHeader{Version: kmip.ProtocolVersion{Major: 1, Minor: 4}, BatchCount: 1},
				BatchItems: []kmip.RequestBatchItem{{Operation: kmip.OPERATION_ACTIVATE, RequestPayload: kmip.ActivateRequest{UniqueIdentifier: "x"}}}}
			_ = kmip.NewEncoder(c.cc).Encode(&req)
			select {
			case <-c.entered:
			case <-time.After(3 * time.Second):
				viol = append(viol, "request in flight never reached its handler")
			}
		case "R":
			c := pick(func(c *sdConn) bool { return c.inflight != nil && !c.clientOK })
			if c == nil {
				return "invalid", nil
			}
			close(c.inflight)
			var resp kmip.Response
			_ = c.cc.SetReadDeadline(time.Now().Add(3 * time.Second))
			if err := kmip.NewDecoder(c.cc).Decode(&resp); err != nil || len(resp.BatchItems) != 1 || resp.BatchItems[0].ResultStatus != kmip.RESULT_STATUS_SUCCESS {
				viol = append(viol, fmt.Sprintf("a request in flight during Shutdown was aborted: %v", err))
			}
			c.clientOK = true
		case "C":
			c := pick(func(c *sdConn) bool { return open(c) && (c.inflight == nil || c.clientOK) })
			if c == nil {
				return "invalid", nil
			}
			c.cc.Close()
			if !waitFor(func() bool { return isClosed(c) }, 3*time.Second) {
				viol = append(viol, "the session did not end after its client closed")
			}
		case "S":
			if r.sdCalled {
				return "invalid", nil
			}
			r.callShutdown()
		case "X":
			r.cancel()
			cancelled = true
		}
		time.Sleep(2 * time.Millisecond)
	}
	time.Sleep(15 * time.Millisecond)
	// observe
	r.mu.Lock()
	sd := "idle"
	if r.sdCalled {
		sd = "waiting"
		// the property, judged directly: once its context has ended Shutdown returns (the context's error, or nil if the
		// drain won the race)
		if cancelled && r.sdResult == nil {
			r.viol = append(r.viol, "Shutdown did not return after its context had ended (sessions still open)")
		}
	}
	if r.sdResult != nil {
		if *r.sdResult == nil {
			sd = "nil"
		} else if *r.sdResult == context.Canceled {
			sd = "ctx"
		} else {
			sd = "OTHER(" + (*r.sdResult).Error() + ")"
		}
		// when Shutdown returned nil every started session must have closed its connection before
		if *r.sdResult == nil {
			for _, c := range r.conns {
				if c.started != 0 && (c.closed == 0 || c.closed > r.sdSeq) {
					r.viol = append(r.viol, fmt.Sprintf("Shutdown returned nil while session %d had not ended", c.rc.ID))
				}
			}
		}
	}
	started, openN, late := 0, 0, 0
	for _, c := range r.conns {
		switch {
		case c.started != 0:
			started++
			if c.closed == 0 {
				openN++
			}
		case c.closed != 0:
			late++
		}
	}
	viol = append(viol, r.viol...)
	r.mu.Unlock()
	serve := "serving"
	select {
	case e := <-r.serveRet:
		if e == nil {
			serve = "nil"
		} else {
			serve = "err"
			if r.sdCalled {
				// the schedules contain no Accept failure of their own: the only one is the listener's answer to Shutdown closing it
				viol = append(viol, "Serve returned an error instead of nil after Shutdown closed the listener: "+e.Error())
			}
		}
		r.serveRet <- e
	default:
	}
	obs = fmt.Sprintf("sd=%s serve=%s started=%d open=%d late=%d", sd, serve, started, openN, late)
	// clean up: release handlers, close clients, make sure everything returns
	for _, c := range r.conns {
		if c.inflight != nil && !c.clientOK {
			close(c.inflight)
		}
		c.cc.Close()
	}
	if !r.sdCalled {
		r.callShutdown()
	}
	select {
	case e := <-r.serveRet:
		if e != nil && serve != "err" {
			viol = append(viol, "Serve returned an error instead of nil after Shutdown closed the listener: "+e.Error())
		}
	case <-time.After(5 * time.Second):
		viol = append(viol, "Serve did not return after Shutdown")
	}
	r.mu.Lock()
	pending := r.sdResult == nil
	r.mu.Unlock()
	if pending {
		select {
		case <-r.sdRet:
		case <-time.After(5 * time.Second):
			viol = append(viol, "Shutdown did not return after all sessions ended")
		}
	}
	return obs, viol
}

// c11ShutdownFirst: Shutdown completes before Serve is even called (a start-up race the caller cannot exclude:
// `go s.ListenAndServe(...)` followed at once by Shutdown). Judged by the property itself: after Shutdown returned nil no
// session starts, a connection accepted afterwards is closed, and Serve returns nil.
func c11ShutdownFirst(r *Result, d *drv.Driver) {
	for _, n := range []int{1, 3} {
		key := fmt.Sprintf("Shutdown, then Serve, then %d connection(s) arrive", n)
		r.eval(key, true)
		s := &kmip.Server{}
		var started int32
		s.SessionAuthHandler = func(c net.Conn) (interface{}, error) { atomic.AddInt32(&started, 1); return nil, nil }
		ctx, cancel := context.WithTimeout(context.Background(), 2*time.Second)
		sdErr := s.Shutdown(ctx)
		cancel()
		l := rec.NewListener()
		var conns []*rec.Conn
		var clients []*rec.MemConn
		for i := 0; i < n; i++ {
			sc, cc := rec.Pipe()
			rc := rec.NewConn(sc, i+1)
			conns = append(conns, rc)
			clients = append(clients, cc)
			l.Push(rec.AcceptStep{Conn: rc})
		}
		init := make(chan struct{})
		ret := make(chan error, 1)
		go func() { ret <- s.Serve(l, init) }()
		obs := fmt.Sprintf("shutdown=%v ", sdErr)
		select {
		case e := <-ret:
			obs += fmt.Sprintf("serve=%v ", e)
		case <-time.After(2 * time.Second):
			obs += "serve=still-running "
		}
		closed := 0
		for _, rc := range conns[:1] {
			select {
			case <-rc.Closed():
				closed++
			case <-time.After(time.Second):
			}
		}
		obs += fmt.Sprintf("first-connection-closed=%d sessions-started=%d", closed, atomic.LoadInt32(&started))
		want := "shutdown=<nil> serve=<nil> first-connection-closed=1 sessions-started=0"
		if obs != want {
			r.find(Finding{Kind: "violation", What: "a Server whose Shutdown had already returned nil went on to accept / serve connections", Input: key, Expect: want, Actual: obs})
		}
		// the same schedule in the transition system (Shutdown runs to completion, Serve starts, a connection arrives and is refused)
		if d != nil {
			if rep, err := d.Ask("shutdown S V B"); err == nil {
				model := "ok sd=nil serve=nil started=0 open=0 late=1"
				real := fmt.Sprintf("ok sd=%s serve=%s started=%d open=0 late=%d", map[bool]string{true: "nil", false: "err"}[sdErr == nil],
					map[bool]string{true: "nil", false: "other"}[strings.Contains(obs, "serve=<nil>")], atomic.LoadInt32(&started), closed)
				if rep != model || real != rep {
					r.find(Finding{Kind: "disagreement", What: "Shutdown transition system differs from the real server (Shutdown before Serve)", Input: "S V B", Expect: rep, Actual: real})
				}
			}
		}
		// clean up whatever is still running
		for _, cc := range clients {
			cc.Close()
		}
		l.Close() // (Shutdown is not called a second time: the real Shutdown panics on a second call - outside C11's quantifier)
		r.Stats["shutdown-first-scenarios"]++
	}
}

// c11AfterServeFailed: Serve has already returned by itself - a permanent Accept error - while sessions it started are still
// open (one idle, one with a request in flight); Shutdown is called afterwards. "Shutdown returns nil only when every session
// that was started has ended and its connection has been closed; otherwise it returns the context's error": with the sessions
// still open and a context that expires, Shutdown must report the context's error, and once they have ended, nil.
func c11AfterServeFailed(r *Result) {
	for _, inflight := range []bool{false, true} {
		key := fmt.Sprintf("session open (request in flight: %v), permanent Accept error ends Serve, then Shutdown with a 300 ms context", inflight)
		r.eval(key, true)
		s := &kmip.Server{}
		release := make(chan struct{})
		entered := make(chan struct{}, 1)
		s.Handle(kmip.OPERATION_ACTIVATE, func(ctx *kmip.RequestContext, item *kmip.RequestBatchItem) (interface{}, error) {
			entered <- struct{}{}
			<-release
			return kmip.ActivateResponse{UniqueIdentifier: "x"}, nil
		})
		sc, cc := rec.Pipe()
		rc := rec.NewConn(sc, 1)
		l := rec.NewListener()
		l.Push(rec.AcceptStep{Conn: rc})
		init := make(chan struct{})
		ret := make(chan error, 1)
		go func() { ret <- s.Serve(l, init) }()
		<-init
		_ = cc.SetDeadline(time.Now().Add(5 * time.Second))
		enc, dec := kmip.NewEncoder(cc), kmip.NewDecoder(cc)
		// one complete exchange proves the session is up
		var resp kmip.Response
		dv := kmip.Request{Header: kmip.RequestHeader{Version: kmip.ProtocolVersion{Major: 1, Minor: 4}, BatchCount: 1},
			BatchItems: []kmip.RequestBatchItem{{Operation: kmip.OPERATION_DISCOVER_VERSIONS, RequestPayload: kmip.DiscoverVersionsRequest{}}}}
		if err := enc.Encode(&dv); err == nil {
			_ = dec.Decode(&resp)
		}
		if inflight {
			act := kmip.Request{Header: kmip.RequestHeader{Version: kmip.ProtocolVersion{Major: 1, Minor: 4}, BatchCount: 1},
				BatchItems: []kmip.RequestBatchItem{{Operation: kmip.OPERATION_ACTIVATE, RequestPayload: kmip.ActivateRequest{UniqueIdentifier: "a"}}}}
			_ = enc.Encode(&act)
			<-entered
		}
		permanent := fmt.Errorf("accept: file descriptor table corrupted")
		l.Push(rec.AcceptStep{Err: permanent})
		obs := ""
		select {
		case e := <-ret:
			obs += fmt.Sprintf("serve=%v ", e == permanent)
		case <-time.After(3 * time.Second):
			obs += "serve=still-running "
		}
		ctx, cancel := context.WithTimeout(context.Background(), 300*time.Millisecond)
		t0 := time.Now()
		sdErr := s.Shutdown(ctx)
		cancel()
		open := true
		select {
		case <-rc.Closed():
			open = false
		default:
		}
		obs += fmt.Sprintf("shutdown=%v session-open-when-it-returned=%v waited>=250ms=%v", sdErr, open, time.Since(t0) >= 250*time.Millisecond)
		want := "serve=true shutdown=context deadline exceeded session-open-when-it-returned=true waited>=250ms=true"
		if obs != want {
			r.find(Finding{Kind: "violation", What: "Shutdown after Serve had ended by itself did not wait for the sessions Serve had started", Input: key, Expect: want, Actual: obs})
		}
		close(release)
		if inflight {
			_ = dec.Decode(&resp)
		}
		cc.Close()
		select {
		case <-rc.Closed():
		case <-time.After(3 * time.Second):
			r.find(Finding{Kind: "violation", What: "a session outlived its peer after Serve had ended by itself", Input: key})
		}
		r.Stats["serve-failed-then-shutdown-scenarios"]++
	}
}

// c11HandshakeFailure: sessions that end before they really begin - the TLS handshake of an accepted connection fails (plaintext
// peer, peer that hangs up, peer silent until the read deadline) - are sessions that were started all the same: "Shutdown
// returns nil only when every session that was started has ended AND ITS CONNECTION HAS BEEN CLOSED".
func c11HandshakeFailure(r *Result) {
	ca := tlsm.NewCA("c11-ca")
	serverCert := tlsm.Leaf(ca, tlsm.LeafOpts{Host: "kmip.test"})
	for _, how := range []string{"plaintext", "hangup", "silent"} {
		key := fmt.Sprintf("TLS-serving Server, accepted connection whose handshake fails (%s peer), then Shutdown", how)
		r.eval(key, true)
		cfg := &tls.Config{Certificates: []tls.Certificate{serverCert}, ClientCAs: ca.Pool}
		kmip.DefaultServerTLSConfig(cfg)
		s := &kmip.Server{TLSConfig: cfg, ReadTimeout: 200 * time.Millisecond, WriteTimeout: 200 * time.Millisecond}
		sc, cc := rec.Pipe()
		rc := rec.NewConn(sc, 1)
		l := rec.NewListener()
		l.Push(rec.AcceptStep{Conn: tls.Server(rc, cfg)})
		init := make(chan struct{})
		ret := make(chan error, 1)
		go func() { ret <- s.Serve(l, init) }()
		<-init
		_ = cc.SetDeadline(time.Now().Add(3 * time.Second))
		switch how {
		case "plaintext":
			_, _ = cc.Write([]byte("GET / HTTP/1.1\r\nHost: kmip\r\n\r\n"))
		case "hangup":
			cc.Close()
		}
		// the handshake fails at once (plaintext / hangup) or at the read deadline (silent)
		time.Sleep(500 * time.Millisecond)
		ctx, cancel := context.WithTimeout(context.Background(), 3*time.Second)
		sdErr := s.Shutdown(ctx)
		cancel()
		closed := false
		select {
		case <-rc.Closed():
			closed = true
		default:
		}
		obs := fmt.Sprintf("shutdown=%v connection-closed-by-the-server=%v", sdErr, closed)
		if obs != "shutdown=<nil> connection-closed-by-the-server=true" {
			r.find(Finding{Kind: "violation", What: "Shutdown returned while the connection of a session that had been started (and whose TLS handshake failed) was not closed", Input: key,
				Expect: "shutdown=<nil> connection-closed-by-the-server=true", Actual: obs})
		}
		cc.Close()
		select {
		case <-ret:
		case <-time.After(3 * time.Second):
		}
		r.Stats["handshake-failure-scenarios"]++
	}
}

// c11CallbackInProgress: Shutdown while a session is inside a callback of the application (session authentication, request
// authentication, an operation handler) that does not return. "Otherwise it returns the context's error": Shutdown must come
// back with the context's error soon after the context ends, whatever the session is doing - and with nil once it is released.
func c11CallbackInProgress(r *Result) {
	for _, where := range []string{"SessionAuthHandler", "RequestAuthHandler", "operation handler"} {
		key := "Shutdown with a 200 ms context while a session is blocked inside its " + where
		r.eval(key, true)
		release := make(chan struct{})
		entered := make(chan struct{}, 1)
		block := func() {
			select {
			case entered <- struct{}{}:
			default:
			}
			<-release
		}
		s := &kmip.Server{}
		switch where {
		case "SessionAuthHandler":
			s.SessionAuthHandler = func(c net.Conn) (interface{}, error) { block(); return nil, nil }
		case "RequestAuthHandler":
			s.RequestAuthHandler = func(sc *kmip.SessionContext, a *kmip.Authentication) (interface{}, error) { block(); return 1, nil }
		}
		s.Handle(kmip.OPERATION_ACTIVATE, func(ctx *kmip.RequestContext, item *kmip.RequestBatchItem) (interface{}, error) {
			if where == "operation handler" {
				block()
			}
			return kmip.ActivateResponse{UniqueIdentifier: "x"}, nil
		})
		sc, cc := rec.Pipe()
		rc := rec.NewConn(sc, 1)
		l := rec.NewListener()
		l.Push(rec.AcceptStep{Conn: rc})
		init := make(chan struct{})
		ret := make(chan error, 1)
		go func() { ret <- s.Serve(l, init) }()
		<-init
		_ = cc.SetDeadline(time.Now().Add(6 * time.Second))
		req := kmip.Request{Header: kmip.RequestHeader{Version: kmip.ProtocolVersion{Major: 1, Minor: 4}, BatchCount: 1,
			Authentication: kmip.Authentication{CredentialType: kmip.CREDENTIAL_TYPE_USERNAME_AND_PASSWORD, CredentialValue: kmip.CredentialUsernamePassword{Username: "u", Password: "p"}}},
			BatchItems: []kmip.RequestBatchItem{{Operation: kmip.OPERATION_ACTIVATE, RequestPayload: kmip.ActivateRequest{UniqueIdentifier: "a"}}}}
		if where == "operation handler" {
			req.Header.Authentication = kmip.Authentication{}
		}
		go func() { _ = kmip.NewEncoder(cc).Encode(&req) }()
		select {
		case <-entered:
		case <-time.After(3 * time.Second):
			r.find(Finding{Kind: "disagreement", What: "scenario did not reach the callback", Input: key})
		}
		ctx, cancel := context.WithTimeout(context.Background(), 200*time.Millisecond)
		t0 := time.Now()
		sdc := make(chan error, 1)
		go func() { sdc <- s.Shutdown(ctx) }()
		obs := ""
		sdReturned := false
		select {
		case e := <-sdc:
			sdReturned = true
			obs = fmt.Sprintf("returned %v after %v", e, time.Since(t0).Round(100*time.Millisecond))
		case <-time.After(2 * time.Second):
			obs = "still blocked 2 s after its context ended"
		}
		cancel()
		if !strings.HasPrefix(obs, "returned context deadline exceeded after 200ms") && !strings.HasPrefix(obs, "returned context deadline exceeded after 300ms") {
			r.find(Finding{Kind: "violation", What: "Shutdown did not return its context's error when the context ended while a session was still busy", Input: key, Expect: "returned context deadline exceeded after 200ms", Actual: obs})
		}
		close(release)
		go func() { var resp kmip.Response; _ = kmip.NewDecoder(cc).Decode(&resp); cc.Close() }()
		select {
		case <-rc.Closed():
		case <-time.After(3 * time.Second):
		}
		if !sdReturned {
			select {
			case <-sdc:
			case <-time.After(3 * time.Second):
			}
		}
		select {
		case <-ret:
		case <-time.After(3 * time.Second):
		}
		r.Stats["callback-in-progress-scenarios"]++
	}
}

// c11Pipelined: "never aborts a request that is in flight" - for a request that had reached the server, whole, before Shutdown
// was called, but whose turn had not come yet: the client wrote two (three) requests back to back, the handler of the first
// is still running when Shutdown is called. Every one of them is answered; the connection is closed by nobody but the client.
func c11Pipelined(r *Result) {
	for _, n := range []int{2, 3} {
		key := fmt.Sprintf("%d requests sent back to back, Shutdown called while the handler of the first is running, then the handler returns", n)
		r.eval(key, true)
		release := make(chan struct{})
		entered := make(chan struct{}, 8)
		var calls int32
		s := &kmip.Server{}
		s.Handle(kmip.OPERATION_ACTIVATE, func(ctx *kmip.RequestContext, item *kmip.RequestBatchItem) (interface{}, error) {
			if atomic.AddInt32(&calls, 1) == 1 {
				entered <- struct{}{}
				<-release
			}
			return kmip.ActivateResponse{UniqueIdentifier: item.RequestPayload.(kmip.ActivateRequest).UniqueIdentifier}, nil
		})
		sc, cc := rec.Pipe()
		rc := rec.NewConn(sc, 1)
		l := rec.NewListener()
		l.Push(rec.AcceptStep{Conn: rc})
		init := make(chan struct{})
		ret := make(chan error, 1)
		go func() { ret <- s.Serve(l, init) }()
		<-init
		_ = cc.SetDeadline(time.Now().Add(6 * time.Second))
		var all bytes.Buffer
		for i := 0; i < n; i++ {
			req := kmip.Request{Header: kmip.RequestHeader{Version: kmip.ProtocolVersion{Major: 1, Minor: 4}, BatchCount: 1},
				BatchItems: []kmip.RequestBatchItem{{Operation: kmip.OPERATION_ACTIVATE, RequestPayload: kmip.ActivateRequest{UniqueIdentifier: fmt.Sprintf("id-%d", i)}}}}
			_ = kmip.NewEncoder(&all).Encode(&req)
		}
		wrote := make(chan struct{})
		go func() { _, _ = cc.Write(all.Bytes()); close(wrote) }()
		select {
		case <-entered:
		case <-time.After(3 * time.Second):
			r.find(Finding{Kind: "disagreement", What: "scenario did not reach the handler", Input: key})
		}
		select {
		case <-wrote: // every request has been taken off the client's hands by the server
		case <-time.After(3 * time.Second):
			r.find(Finding{Kind: "disagreement", What: "scenario: the server did not take the pipelined requests", Input: key})
		}
		ctx, cancel := context.WithTimeout(context.Background(), 5*time.Second)
		sdc := make(chan error, 1)
		go func() { sdc <- s.Shutdown(ctx) }()
		waitFor(func() bool { return l.IsClosed() }, 2*time.Second)
		time.Sleep(20 * time.Millisecond)
		close(release)
		answered := 0
		dec := kmip.NewDecoder(cc)
		for i := 0; i < n; i++ {
			var resp kmip.Response
			if err := dec.Decode(&resp); err != nil {
				break
			}
			if len(resp.BatchItems) == 1 && resp.BatchItems[0].ResultStatus == kmip.RESULT_STATUS_SUCCESS {
				if p, ok := resp.BatchItems[0].ResponsePayload.(kmip.ActivateResponse); ok && p.UniqueIdentifier == fmt.Sprintf("id-%d", i) {
					answered++
				}
			}
		}
		if answered != n {
			r.find(Finding{Kind: "violation", What: "a request that had reached the server before Shutdown was called was dropped unanswered", Input: key, Expect: fmt.Sprintf("%d responses", n), Actual: fmt.Sprintf("%d responses, %d handler calls", answered, atomic.LoadInt32(&calls))})
		}
		cc.Close()
		select {
		case e := <-sdc:
			if e != nil {
				r.find(Finding{Kind: "violation", What: "Shutdown did not return nil after the last session ended", Input: key, Actual: fmt.Sprint(e)})
			}
		case <-time.After(6 * time.Second):
			r.find(Finding{Kind: "violation", What: "Shutdown did not return after the last session ended", Input: key})
		}
		cancel()
		select {
		case <-ret:
		case <-time.After(3 * time.Second):
		}
		r.Stats["pipelined-at-shutdown-scenarios"]++
	}
}

// c11ListenerCloseFails: the listener's Close does close it but reports an error (clean-up gone wrong). Whatever Shutdown makes
// of that error, it does not come back while a started session is open and the context is live - "no callback or handler
// starts or is still running after it".
func c11ListenerCloseFails(r *Result) {
	for _, busy := range []bool{false, true} {
		key := fmt.Sprintf("Shutdown on a listener whose Close reports an error, one session open (request in flight: %v), context 5 s", busy)
		r.eval(key, true)
		release := make(chan struct{})
		entered := make(chan struct{}, 1)
		var running int32
		s := &kmip.Server{}
		s.Handle(kmip.OPERATION_ACTIVATE, func(ctx *kmip.RequestContext, item *kmip.RequestBatchItem) (interface{}, error) {
			atomic.StoreInt32(&running, 1)
			entered <- struct{}{}
			<-release
			atomic.StoreInt32(&running, 0)
			return kmip.ActivateResponse{UniqueIdentifier: "x"}, nil
		})
		sc, cc := rec.Pipe()
		rc := rec.NewConn(sc, 1)
		l := rec.NewListener()
		l.CloseErr = fmt.Errorf("listener: cannot remove socket file")
		l.Push(rec.AcceptStep{Conn: rc})
		init := make(chan struct{})
		ret := make(chan error, 1)
		go func() { ret <- s.Serve(l, init) }()
		<-init
		_ = cc.SetDeadline(time.Now().Add(6 * time.Second))
		if busy {
			req := kmip.Request{Header: kmip.RequestHeader{Version: kmip.ProtocolVersion{Major: 1, Minor: 4}, BatchCount: 1},
				BatchItems: []kmip.RequestBatchItem{{Operation: kmip.OPERATION_ACTIVATE, RequestPayload: kmip.ActivateRequest{UniqueIdentifier: "a"}}}}
			go func() { _ = kmip.NewEncoder(cc).Encode(&req) }()
			select {
			case <-entered:
			case <-time.After(3 * time.Second):
				r.find(Finding{Kind: "disagreement", What: "scenario did not reach the handler", Input: key})
			}
		} else {
			waitFor(func() bool { return l.Pending() == 0 }, 2*time.Second)
			time.Sleep(20 * time.Millisecond)
		}
		ctx, cancel := context.WithTimeout(context.Background(), 5*time.Second)
		sdc := make(chan error, 1)
		go func() { sdc <- s.Shutdown(ctx) }()
		select {
		case e := <-sdc:
			closed := false
			select {
			case <-rc.Closed():
				closed = true
			default:
			}
			r.find(Finding{Kind: "violation", What: "Shutdown returned while a started session was still open and its context had not ended", Input: key,
				Expect: "Shutdown waits for the session (or the context)", Actual: fmt.Sprintf("returned %v; handler running = %v, session's connection closed = %v", e, atomic.LoadInt32(&running) == 1, closed)})
			sdc <- e
		case <-time.After(300 * time.Millisecond):
		}
		close(release)
		go func() { var resp kmip.Response; _ = kmip.NewDecoder(cc).Decode(&resp); cc.Close() }()
		if !busy {
			cc.Close()
		}
		select {
		case <-sdc:
		case <-time.After(6 * time.Second):
			r.find(Finding{Kind: "violation", What: "Shutdown did not return after the last session ended", Input: key})
		}
		cancel()
		select {
		case e := <-ret:
			if e != nil {
				r.find(Finding{Kind: "violation", What: "Serve returned an error after Shutdown", Input: key, Actual: e.Error()})
			}
		case <-time.After(3 * time.Second):
			r.find(Finding{Kind: "violation", What: "Serve did not return after Shutdown", Input: key})
		}
		r.Stats["listener-close-error-scenarios"]++
	}
}

// c11SlowListenerClose: a listener whose Close wakes the blocked Accept at once and itself returns only a little later (it has
// cleaning up to do). Whatever order Shutdown does its steps in, Serve - woken by the listener's error - returns nil, not that
// error: "Serve returns nil" after Shutdown. With and without an open session.
func c11SlowListenerClose(r *Result) {
	for _, withSession := range []bool{false, true} {
		for _, delay := range []time.Duration{30 * time.Millisecond, 150 * time.Millisecond} {
			key := fmt.Sprintf("Shutdown while Serve is blocked in Accept, on a listener whose Close wakes Accept at once and returns %v later (open session: %v)", delay, withSession)
			r.eval(key, true)
			s := &kmip.Server{}
			l := rec.NewListener()
			l.CloseDelay = delay
			var cc *rec.MemConn
			if withSession {
				var sc *rec.MemConn
				sc, cc = rec.Pipe()
				l.Push(rec.AcceptStep{Conn: rec.NewConn(sc, 1)})
			}
			init := make(chan struct{})
			ret := make(chan error, 1)
			go func() { ret <- s.Serve(l, init) }()
			<-init
			waitFor(func() bool { return l.Pending() == 0 }, 2*time.Second)
			time.Sleep(10 * time.Millisecond) // Serve is back in Accept
			ctx, cancel := context.WithTimeout(context.Background(), 5*time.Second)
			sdc := make(chan error, 1)
			go func() { sdc <- s.Shutdown(ctx) }()
			var serveErr error
			select {
			case serveErr = <-ret:
			case <-time.After(4 * time.Second):
				serveErr = fmt.Errorf("Serve did not return")
			}
			if cc != nil {
				cc.Close()
			}
			var sdErr error
			select {
			case sdErr = <-sdc:
			case <-time.After(6 * time.Second):
				sdErr = fmt.Errorf("Shutdown did not return")
			}
			cancel()
			if serveErr != nil || sdErr != nil {
				r.find(Finding{Kind: "violation", What: "after Shutdown, Serve returned the listener's error (or one of the two did not return nil)", Input: key, Expect: "Serve nil, Shutdown nil", Actual: fmt.Sprintf("Serve %v, Shutdown %v", serveErr, sdErr)})
			}
			r.Stats["slow-listener-close-scenarios"]++
		}
	}
}

func runC11(r *Result, d *drv.Driver, tier string, seed int64, replay string) {
	c11CallbackInProgress(r)
	c11Pipelined(r)
	c11ListenerCloseFails(r)
	c11SlowListenerClose(r)
	c11ReadySignal(r)
	c11ShutdownFirst(r, d)
	c11AfterServeFailed(r)
	c11HandshakeFailure(r)
	c11HandshakePending(r)
	c11DuringBackoff(r)
	maxLen := 5
	if tier == "thorough" {
		maxLen = 7
	}
	r.Rule = fmt.Sprintf("exhaustive: every schedule up to length %d over {connection arrives and is served, request put in flight (handler blocked), handler released, client closes, Shutdown called, Shutdown landing between Accept returning and registration, context cancelled} that is a run of the Lean transition system; "+
		"each is replayed on the real Server through an injected listener (Shutdown is called from inside Accept to place it deterministically), blocking handlers and a cancellable context; observed: Shutdown's and Serve's return values, sessions started / still open / connections closed late, and the order of Shutdown's return relative to session starts and ends. plus: Shutdown before Serve; Shutdown after Serve ended by itself on a permanent Accept error with sessions still open; Shutdown after the TLS handshake of an accepted connection failed (the connection must have been closed); Shutdown while the only session is still in (or before) its TLS handshake, which then completes and carries one request; Shutdown during the back-off after 4 / 6 / 7 temporary Accept errors; Shutdown with a short context while a session sits inside the session-auth / request-auth callback or a handler. distinct = one per schedule; non-trivial = contains Shutdown", maxLen)
	r.Exhaustive = true
	alphabet := []string{"A", "Q", "R", "C", "S", "L", "X"}
	var seqs [][]string
	var gen func(p []string)
	gen = func(p []string) {
		if len(p) > 0 {
			seqs = append(seqs, append([]string(nil), p...))
		}
		if len(p) == maxLen {
			return
		}
		for _, a := range alphabet {
			gen(append(p, a))
		}
	}
	gen(nil)
	// static pruning: at most one of S/L, one X, Q/R/C need a connection
	var cand [][]string
	for _, s := range seqs {
		nS, nX, conns, infl, ok := 0, 0, 0, 0, true
		for _, a := range s {
			switch a {
			case "A":
				if nS > 0 {
					ok = false
				}
				conns++
			case "L":
				if nS > 0 {
					ok = false
				}
				nS++
			case "S":
				nS++
			case "X":
				nX++
			case "Q":
				if conns-infl <= 0 {
					ok = false
				}
				infl++
			case "R":
				if infl <= 0 {
					ok = false
				}
				infl--
				conns-- // a released connection is not reused for another in-flight request in this harness
				conns++
			case "C":
				if conns <= 0 {
					ok = false
				}
				conns--
			}
		}
		if nS > 1 || nX > 1 || !ok {
			continue
		}
		cand = append(cand, s)
	}
	var lines []string
	for _, s := range cand {
		lines = append(lines, "shutdown "+strings.Join(s, " "))
	}
	replies, err := d.AskAll(lines)
	if err != nil {
		r.find(Finding{Kind: "disagreement", What: "driver failure", Input: err.Error()})
		return
	}
	type job struct {
		i    int
		obs  string
		viol []string
	}
	results := make([]job, len(cand))
	var wg sync.WaitGroup
	sem := make(chan struct{}, 48)
	for i := range cand {
		if replies[i] == "invalid" {
			continue
		}
		wg.Add(1)
		sem <- struct{}{}
		go func(i int) {
			defer wg.Done()
			defer func() { <-sem }()
			o, v := runShutdownSchedule(cand[i])
			results[i] = job{i, o, v}
		}(i)
	}
	wg.Wait()
	for i, s := range cand {
		key := strings.Join(s, " ")
		if replies[i] == "invalid" || results[i].obs == "invalid" {
			r.Stats["schedule:not-a-run"]++
			continue
		}
		hasS := strings.Contains(key, "S") || strings.Contains(key, "L")
		r.eval(key, hasS)
		if strings.Contains(key, "L") {
			r.Stats["schedule:shutdown-lands-before-registration"]++
		}
		if strings.Contains(key, "Q") && hasS {
			r.Stats["schedule:request-in-flight-with-shutdown"]++
		}
		alts := strings.Split(strings.TrimPrefix(replies[i], "ok "), "|")
		match := false
		for _, a := range alts {
			if a == results[i].obs {
				match = true
			}
		}
		if len(r.Samples) < 4 && len(s) >= 4 && hasS {
			r.sample(map[string]string{"schedule": key, "real": results[i].obs, "model": replies[i]})
		}
		if !match {
			r.find(Finding{Kind: "disagreement", What: "Shutdown transition system differs from the real server", Input: key, Expect: replies[i], Actual: results[i].obs})
		}
		for _, v := range results[i].viol {
			r.find(Finding{Kind: "violation", What: v, Input: map[string]string{"schedule": key}, Actual: results[i].obs})
		}
	}
}

// c11HandshakePending: Shutdown lands while the ONLY session is a started one that has not finished (or even begun) its TLS
// handshake. "Shutdown returns nil only when every session that was started has ended and its connection has been closed - so no
// callback or handler starts or is still running after it": the peer handshakes 300 ms after Shutdown was called, sends one
// request, gets its answer, and leaves; Shutdown must return nil after that, not before, and no handler may start after it
// returned.
func c11HandshakePending(r *Result) {
	ca := tlsm.NewCA("c11p-ca")
	serverCert := tlsm.Leaf(ca, tlsm.LeafOpts{Host: "kmip.test"})
	for _, before := range []string{"nothing sent yet", "ClientHello sent, handshake not finished"} {
		key := "TLS-serving Server, one accepted connection (" + before + "), Shutdown, then the peer completes the handshake, sends one request and leaves"
		crumb("C11 " + key)
		r.eval(key, true)
		cfg := &tls.Config{Certificates: []tls.Certificate{serverCert}, ClientCAs: ca.Pool}
		kmip.DefaultServerTLSConfig(cfg)
		s := &kmip.Server{TLSConfig: cfg}
		var sdReturned int32
		var lateHandler int32
		s.Handle(kmip.OPERATION_ACTIVATE, func(ctx *kmip.RequestContext, item *kmip.RequestBatchItem) (interface{}, error) {
			if atomic.LoadInt32(&sdReturned) == 1 {
				atomic.StoreInt32(&lateHandler, 1)
			}
			return kmip.ActivateResponse{UniqueIdentifier: "x"}, nil
		})
		sc, cc := rec.Pipe()
		rc := rec.NewConn(sc, 1)
		l := rec.NewListener()
		l.Push(rec.AcceptStep{Conn: tls.Server(rc, cfg)})
		init := make(chan struct{})
		ret := make(chan error, 1)
		go func() { ret <- s.Serve(l, init) }()
		<-init
		waitFor(func() bool { return l.Pending() == 0 }, 2*time.Second)
		time.Sleep(30 * time.Millisecond) // the session goroutine is in (or about to enter) the handshake
		_ = cc.SetDeadline(time.Now().Add(5 * time.Second))
		ccfg := &tls.Config{RootCAs: ca.Pool, ServerName: "kmip.test", Certificates: []tls.Certificate{tlsm.Leaf(ca, tlsm.LeafOpts{Host: "client.test", Client: true})}, MinVersion: tls.VersionTLS12}
		tc := tls.Client(cc, ccfg)
		hsDone := make(chan error, 1)
		startHS := make(chan struct{})
		go func() {
			if before == "nothing sent yet" {
				<-startHS
			}
			hsDone <- tc.Handshake()
		}()
		if before != "nothing sent yet" {
			time.Sleep(30 * time.Millisecond)
		}
		sdRet := make(chan error, 1)
		var sdAt time.Time
		go func() {
			ctx, cancel := context.WithTimeout(context.Background(), 4*time.Second)
			defer cancel()
			e := s.Shutdown(ctx)
			sdAt = time.Now()
			atomic.StoreInt32(&sdReturned, 1)
			sdRet <- e
		}()
		time.Sleep(300 * time.Millisecond)
		early := false
		select {
		case e := <-sdRet:
			early = true
			sdRet <- e
		default:
		}
		close(startHS)
		obs := ""
		if err := <-hsDone; err != nil {
			obs = "handshake failed: " + err.Error() + " "
		} else {
			req := kmip.Request{Header: kmip.RequestHeader{Version: kmip.ProtocolVersion{Major: 1, Minor: 4}, BatchCount: 1},
				BatchItems: []kmip.RequestBatchItem{{Operation: kmip.OPERATION_ACTIVATE, RequestPayload: kmip.ActivateRequest{UniqueIdentifier: "a"}}}}
			var resp kmip.Response
			err := kmip.NewEncoder(tc).Encode(&req)
			if err == nil {
				err = kmip.NewDecoder(tc).Decode(&resp)
			}
			obs = fmt.Sprintf("request-answered=%v ", err == nil && len(resp.BatchItems) == 1)
		}
		cc.Close()
		closedAt := time.Time{}
		select {
		case <-rc.Closed():
			closedAt = time.Now()
		case <-time.After(3 * time.Second):
		}
		var sdErr error
		select {
		case sdErr = <-sdRet:
		case <-time.After(5 * time.Second):
			sdErr = fmt.Errorf("Shutdown did not return")
		}
		_ = closedAt
		_ = sdAt
		obs += fmt.Sprintf("shutdown-returned-while-the-session-was-alive=%v shutdown=%v handler-started-after-shutdown-returned=%v", early, sdErr, atomic.LoadInt32(&lateHandler) == 1)
		want := "request-answered=true shutdown-returned-while-the-session-was-alive=false shutdown=<nil> handler-started-after-shutdown-returned=false"
		if obs != want {
			r.find(Finding{Kind: "violation", What: "Shutdown did not wait for a started session that was still in its TLS handshake", Input: key, Expect: want, Actual: obs})
		}
		select {
		case <-ret:
		case <-time.After(3 * time.Second):
		}
		r.Stats["handshake-pending-scenarios"]++
	}
}

// c11DuringBackoff: Shutdown is called while the accept loop is sitting out the back-off after temporary Accept errors (the
// listener has run out of file descriptors, say). "After Shutdown is called the listener is closed ... and Serve returns nil":
// whatever the loop was doing when the signal came - here: sleeping, holding a stale temporary error - it ends in nil.
func c11DuringBackoff(r *Result) {
	for _, n := range []int{4, 6, 7} {
		key := fmt.Sprintf("%d consecutive temporary Accept errors, then Shutdown about half-way through the back-off that follows the last one", n)
		crumb("C11 " + key)
		r.eval(key, true)
		s := &kmip.Server{}
		l := rec.NewListener()
		for i := 0; i < n; i++ {
			l.Push(rec.AcceptStep{Temporary: true})
		}
		init := make(chan struct{})
		ret := make(chan error, 1)
		go func() { ret <- s.Serve(l, init) }()
		<-init
		waitFor(func() bool { return l.Pending() == 0 }, 5*time.Second)
		backoff := 5 * time.Millisecond << uint(n-1) // 5, 10, 20, ... ms: the delay after the n-th error
		if backoff > time.Second {
			backoff = time.Second
		}
		time.Sleep(backoff / 2)
		ctx, cancel := context.WithTimeout(context.Background(), 5*time.Second)
		sdErr := s.Shutdown(ctx)
		cancel()
		obs := fmt.Sprintf("shutdown=%v ", sdErr)
		select {
		case e := <-ret:
			obs += fmt.Sprintf("serve=%v", e)
		case <-time.After(4 * time.Second):
			obs += "serve=still running 4 s after Shutdown returned"
		}
		if obs != "shutdown=<nil> serve=<nil>" {
			r.find(Finding{Kind: "violation", What: "Serve did not return nil when Shutdown came during the back-off after temporary Accept errors", Input: key, Expect: "shutdown=<nil> serve=<nil>", Actual: obs})
		}
		r.Stats["shutdown-during-backoff-scenarios"]++
	}
}
