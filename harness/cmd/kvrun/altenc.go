package main

import (
	"encoding/binary"
	"reflect"
	"time"

	kmip "github.com/smira/go-kmip"

	"kvharness/internal/gentab"
	"kvharness/internal/render"
)

// An independent TTLV serializer written for the harness (it shares nothing with encode.go): used to
// produce VALID NON-CANONICAL encodings — optional fields spelled out although zero, arbitrary padding
// bytes — which C04 says Decode must accept with the value they denote.

type altOpts struct {
	spellZeros bool
	padByte    byte
}

var tagByName = map[string]uint32{}

func init() {
	for _, c := range gentab.Consts {
		if c.Typ == "Tag" {
			tagByName[c.Name] = uint32(c.Num)
		}
	}
}

func altHeader(tag uint32, typ byte, l int) []byte {
	b := make([]byte, 8)
	b[0], b[1], b[2], b[3] = byte(tag>>16), byte(tag>>8), byte(tag), typ
	binary.BigEndian.PutUint32(b[4:], uint32(l))
	return b
}

func altPrim(tag uint32, rv reflect.Value, o altOpts) ([]byte, bool) {
	pad := func(b []byte) []byte {
		for len(b)%8 != 0 {
			b = append(b, o.padByte)
		}
		return b
	}
	switch rv.Type().String() {
	case "int32":
		v := make([]byte, 4)
		binary.BigEndian.PutUint32(v, uint32(rv.Int()))
		return append(altHeader(tag, 2, 4), pad(v)...), true
	case "int64":
		v := make([]byte, 8)
		binary.BigEndian.PutUint64(v, uint64(rv.Int()))
		return append(altHeader(tag, 3, 8), v...), true
	case "kmip.Enum":
		v := make([]byte, 4)
		binary.BigEndian.PutUint32(v, uint32(rv.Uint()))
		return append(altHeader(tag, 5, 4), pad(v)...), true
	case "bool":
		v := make([]byte, 8)
		if rv.Bool() {
			v[7] = 1
		}
		return append(altHeader(tag, 6, 8), v...), true
	case "string":
		s := []byte(rv.String())
		return append(altHeader(tag, 7, len(s)), pad(append([]byte(nil), s...))...), true
	case "[]uint8":
		s := rv.Bytes()
		return append(altHeader(tag, 8, len(s)), pad(append([]byte(nil), s...))...), true
	case "time.Time":
		v := make([]byte, 8)
		binary.BigEndian.PutUint64(v, uint64(rv.Interface().(time.Time).Unix()))
		return append(altHeader(tag, 9, 8), v...), true
	case "time.Duration":
		v := make([]byte, 4)
		binary.BigEndian.PutUint32(v, uint32(time.Duration(rv.Int())/time.Second))
		return append(altHeader(tag, 10, 4), pad(v)...), true
	}
	return nil, false
}

func altZero(rv reflect.Value) bool {
	switch rv.Kind() {
	case reflect.Interface, reflect.Ptr:
		return rv.IsNil()
	case reflect.Slice, reflect.String:
		return rv.Len() == 0
	case reflect.Struct:
		if t, ok := rv.Interface().(time.Time); ok {
			return t.IsZero()
		}
		for _, f := range render.Fields(rv.Type()) {
			if f.Skip || f.TagName == "-" {
				continue
			}
			if !altZero(rv.Field(f.Index)) {
				return false
			}
		}
		return true
	default:
		return rv.IsZero()
	}
}

// altValue returns ok=false when the value has no valid encoding (a required field that cannot be written)
func altValue(tag uint32, rv reflect.Value, o altOpts) ([]byte, bool) {
	if b, ok := altPrim(tag, rv, o); ok {
		return b, true
	}
	if rv.Kind() != reflect.Struct {
		return nil, false
	}
	var body []byte
	for _, f := range render.Fields(rv.Type()) {
		if f.Skip || f.TagName == "-" {
			continue
		}
		ft := tagByName[f.TagName]
		fv := rv.Field(f.Index)
		switch {
		case fv.Kind() == reflect.Slice && fv.Type().String() != "[]uint8":
			if f.Required && fv.Len() == 0 {
				return nil, false
			}
			for i := 0; i < fv.Len(); i++ {
				b, ok := altValue(ft, fv.Index(i), o)
				if !ok {
					return nil, false
				}
				body = append(body, b...)
			}
		case fv.Kind() == reflect.Interface:
			if fv.IsNil() {
				if f.Required {
					return nil, false
				}
				continue
			}
			e := fv.Elem()
			if e.Kind() == reflect.Ptr {
				e = e.Elem()
			}
			b, ok := altValue(ft, e, o)
			if !ok {
				return nil, false
			}
			body = append(body, b...)
		default:
			zero := altZero(fv)
			if !f.Required && zero && !o.spellZeros {
				continue
			}
			b, ok := altValue(ft, fv, o)
			if !ok {
				if !f.Required && zero {
					continue // a zero optional structure that has no valid spelled-out form
				}
				return nil, false
			}
			body = append(body, b...)
		}
	}
	return append(altHeader(tag, 1, len(body)), body...), true
}

// altEncode encodes a struct value (or pointer) under its own struct tag
func altEncode(v interface{}, o altOpts) ([]byte, bool) {
	rv := reflect.ValueOf(v)
	if rv.Kind() == reflect.Ptr {
		rv = rv.Elem()
	}
	var tag uint32
	for i := 0; i < rv.NumField(); i++ {
		if rv.Type().Field(i).Type == reflect.TypeOf(kmip.Tag(0)) {
			ann := rv.Type().Field(i).Tag.Get("kmip")
			tag = tagByName[ann]
		}
	}
	return altValue(tag, rv, o)
}
