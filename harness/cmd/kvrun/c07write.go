package main

import (
	"bytes"
	"context"
	"fmt"
	"io"
	"time"

	kmip "github.com/smira/go-kmip"

	"kvharness/internal/rec"
)

// c07WriteFaults: the write of a response fails once - after 0, 3, 8 or 24 of its bytes went out - with a temporary timeout, a
// temporary non-timeout or a permanent error; later writes would succeed. C07: for that request the peer sees exactly one
// response message, or the connection is closed; never an open connection carrying anything else (a fragment followed by a
// second copy of the response puts every later response out of frame).
func c07WriteFaults(r *Result) {
	errs := []struct {
		name string
		e    error
	}{
		{"temporary timeout", rec.TempTimeoutErr{}},
		{"permanent", rec.ErrInjected},
	}
	for _, partial := range []int{0, 3, 8, 24} {
		for _, ev := range errs {
			for _, wt := range []time.Duration{0, 2 * time.Second} {
				key := fmt.Sprintf("response write fails once with a %s error after %d byte(s) went out (WriteTimeout %v); later writes work", ev.name, partial, wt)
				crumb("C07 scenario: " + key)
				r.eval(key, true)
				s := &kmip.Server{WriteTimeout: wt}
				sc, cc := rec.Pipe()
				rc := rec.NewConn(sc, 1)
				rc.FailWriteRun, rc.FailWriteErr, rc.FailWritePartial, rc.FailWriteOnce = 1, ev.e, partial, true
				l := rec.NewListener()
				l.Push(rec.AcceptStep{Conn: rc})
				init := make(chan struct{})
				ret := make(chan error, 1)
				go func() { ret <- s.Serve(l, init) }()
				<-init
				req := kmip.Request{Header: kmip.RequestHeader{Version: kmip.ProtocolVersion{Major: 1, Minor: 4}, ClientCorrelationValue: "w", BatchCount: 1},
					BatchItems: []kmip.RequestBatchItem{{Operation: kmip.OPERATION_DISCOVER_VERSIONS, UniqueID: []byte{7}, RequestPayload: kmip.DiscoverVersionsRequest{}}}}
				_ = cc.SetDeadline(time.Now().Add(5 * time.Second))
				_ = kmip.NewEncoder(cc).Encode(&req)
				// everything the server sends for this one request, until it closes or falls silent
				var got []byte
				closed := false
				buf := make([]byte, 4096)
				for {
					_ = cc.SetReadDeadline(time.Now().Add(400 * time.Millisecond))
					n, err := cc.Read(buf)
					got = append(got, buf[:n]...)
					if err != nil {
						closed = err == io.EOF || err == io.ErrClosedPipe
						break
					}
				}
				select {
				case <-rc.Closed():
					closed = true
				default:
				}
				obs := fmt.Sprintf("closed=%v bytes=%d", closed, len(got))
				ok := closed
				if !closed {
					var resp kmip.Response
					d := kmip.NewDecoder(bytes.NewReader(got))
					if err := d.Decode(&resp); err == nil && len(resp.BatchItems) == 1 && resp.Header.ClientCorrelationValue == "w" {
						var extra kmip.Response
						if d.Decode(&extra) == io.EOF {
							ok = true
							obs += " (exactly one response)"
						}
					}
				}
				if !ok {
					r.find(Finding{Kind: "violation", What: "after a failed response write the connection stayed open carrying something other than exactly one response", Input: key,
						Expect: "the connection closed, or exactly one well-formed response", Actual: fmt.Sprintf("%s: %x", obs, got[:min(len(got), 96)])})
				}
				cc.Close()
				ctx, cancel := context.WithTimeout(context.Background(), 5*time.Second)
				_ = s.Shutdown(ctx)
				cancel()
				<-ret
				r.Stats["write-fault-scenarios"]++
			}
		}
	}
}

// c07MutatingHandlers: a handler is handed a pointer to the decoded request item and may do with it what it likes - normalise
// the batch item ID in place, turn its Destroy item into a Revoke item to share code, wipe the ID. The response still carries,
// item for item, the operation code and the unique batch item ID THE CLIENT SENT.
func c07MutatingHandlers(r *Result) {
	key := "batch [Activate id=item-a, Destroy id=item-b, Get id=item-c]; the Activate handler upper-cases the ID bytes in place, the Destroy handler rewrites item.Operation to Revoke and reassigns item.UniqueID, the Get handler wipes the ID and fails"
	crumb("C07 " + key)
	r.eval(key, true)
	s := &kmip.Server{}
	s.Handle(kmip.OPERATION_ACTIVATE, func(ctx *kmip.RequestContext, item *kmip.RequestBatchItem) (interface{}, error) {
		for i := range item.UniqueID {
			if item.UniqueID[i] >= 'a' && item.UniqueID[i] <= 'z' {
				item.UniqueID[i] -= 32
			}
		}
		return kmip.ActivateResponse{UniqueIdentifier: "x"}, nil
	})
	s.Handle(kmip.OPERATION_DESTROY, func(ctx *kmip.RequestContext, item *kmip.RequestBatchItem) (interface{}, error) {
		item.Operation = kmip.OPERATION_REVOKE
		item.UniqueID = []byte("changed")
		return kmip.DestroyResponse{UniqueIdentifier: "y"}, nil
	})
	s.Handle(kmip.OPERATION_GET, func(ctx *kmip.RequestContext, item *kmip.RequestBatchItem) (interface{}, error) {
		for i := range item.UniqueID {
			item.UniqueID[i] = 0
		}
		item.UniqueID = nil
		item.Operation = 0
		return nil, fmt.Errorf("no such object")
	})
	sc, cc := rec.Pipe()
	l := rec.NewListener()
	l.Push(rec.AcceptStep{Conn: rec.NewConn(sc, 1)})
	init := make(chan struct{})
	ret := make(chan error, 1)
	go func() { ret <- s.Serve(l, init) }()
	<-init
	_ = cc.SetDeadline(time.Now().Add(3 * time.Second))
	req := kmip.Request{Header: kmip.RequestHeader{Version: kmip.ProtocolVersion{Major: 1, Minor: 4}, BatchCount: 3},
		BatchItems: []kmip.RequestBatchItem{
			{Operation: kmip.OPERATION_ACTIVATE, UniqueID: []byte("item-a"), RequestPayload: kmip.ActivateRequest{UniqueIdentifier: "a"}},
			{Operation: kmip.OPERATION_DESTROY, UniqueID: []byte("item-b"), RequestPayload: kmip.DestroyRequest{UniqueIdentifier: "b"}},
			{Operation: kmip.OPERATION_GET, UniqueID: []byte("item-c"), RequestPayload: kmip.GetRequest{UniqueIdentifier: "c"}}}}
	var resp kmip.Response
	err := kmip.NewEncoder(cc).Encode(&req)
	if err == nil {
		err = kmip.NewDecoder(cc).Decode(&resp)
	}
	obs := "no response: " + fmt.Sprint(err)
	if err == nil {
		obs = ""
		for _, it := range resp.BatchItems {
			obs += fmt.Sprintf("[op=%d id=%s status=%d] ", uint32(it.Operation), it.UniqueID, uint32(it.ResultStatus))
		}
	}
	want := fmt.Sprintf("[op=%d id=item-a status=0] [op=%d id=item-b status=0] [op=%d id=item-c status=1] ", uint32(kmip.OPERATION_ACTIVATE), uint32(kmip.OPERATION_DESTROY), uint32(kmip.OPERATION_GET))
	if obs != want {
		r.find(Finding{Kind: "violation", What: "the response items do not carry the operation codes and unique batch item IDs of the request (handlers that modify the item they are given)", Input: key, Expect: want, Actual: obs})
	}
	cc.Close()
	ctx, cancel := context.WithTimeout(context.Background(), 5*time.Second)
	_ = s.Shutdown(ctx)
	cancel()
	<-ret
	r.Stats["mutating-handler-scenarios"]++
}
