package main

import (
	"context"
	"crypto/tls"
	"fmt"
	"net"
	"sync/atomic"
	"time"

	kmip "github.com/smira/go-kmip"

	"kvharness/internal/rec"
	"kvharness/internal/tlsm"
)

// c10Probes: the emptiest of all malformed streams on a TLS-serving Server - a peer that connects and goes away without a
// byte (a port scanner, a load balancer's health check), one that leaves after the first bytes of a TLS record, one that
// speaks plaintext KMIP to the TLS port. The only reaction is to close that connection: no session-auth callback (it is
// "called after TLS handshake", and there was none), no request-auth callback, no handler; then a regular peer is served.
func c10Probes(r *Result) {
	ca, other := tlsm.NewCA("c10-ca"), tlsm.NewCA("c10-foreign")
	serverCert := tlsm.Leaf(ca, tlsm.LeafOpts{Host: "kmip.test"})
	for _, to := range []time.Duration{2 * time.Second, 0} {
		for _, probe := range []string{"silent-close", "partial-hello"} {
			key := fmt.Sprintf("TLS server (timeouts %v), peer: %s", to, probe)
			crumb("C10 " + key)
			r.eval(key, true)
			ev, resp, err := attackServer(ca, other, serverCert, "none", tls.VersionTLS13, true, to, probe)
			if err != nil {
				r.find(Finding{Kind: "violation", What: "the server did not simply close the connection of a peer that left during the TLS handshake", Input: key, Actual: err.Error()})
			}
			if ev != "sessionAuth=0 requestAuth=0 handler=0" || resp {
				r.find(Finding{Kind: "violation", What: "a callback ran for a connection whose TLS handshake never completed", Input: key, Expect: "sessionAuth=0 requestAuth=0 handler=0", Actual: ev})
			}
			r.Stats["tls-probe-scenarios"]++
		}
		key := fmt.Sprintf("TLS server (timeouts %v), peer: plaintext KMIP", to)
		r.eval(key, true)
		ev, resp, err := attackServer(ca, other, serverCert, "none", tls.VersionTLS13, true, to, "")
		if err != nil || ev != "sessionAuth=0 requestAuth=0 handler=0" || resp {
			r.find(Finding{Kind: "violation", What: "plaintext KMIP sent to a TLS-serving Server was not answered by closing the connection and nothing else", Input: key, Expect: "sessionAuth=0 requestAuth=0 handler=0, no response", Actual: fmt.Sprintf("%s response=%v err=%v", ev, resp, err)})
		}
		// ... and the server is still there for a regular peer
		ev, resp, err = attackServer(ca, other, serverCert, "valid", tls.VersionTLS13, false, to, "")
		if err != nil || ev != "sessionAuth=1 requestAuth=1 handler=1" || !resp {
			r.find(Finding{Kind: "disagreement", What: "a regular TLS peer was not served in the probe scenario (harness)", Input: key, Actual: fmt.Sprintf("%s response=%v err=%v", ev, resp, err)})
		}
	}
}

// c10StalledHandshake: "concurrent connections keep being served correctly" while a peer sits IN its TLS handshake - it has
// connected and says nothing, or sent the first bytes of a record and stopped - and keeps its socket open. The next peer to
// connect completes its handshake and gets its answer promptly, with and without server timeouts (the stalled peer's own
// timeout, if any, is longer than the wait allowed here).
func c10StalledHandshake(r *Result) {
	ca := tlsm.NewCA("c10-ca")
	serverCert := tlsm.Leaf(ca, tlsm.LeafOpts{Host: "kmip.test"})
	for _, to := range []time.Duration{0, 30 * time.Second} {
		for _, probe := range []string{"silent", "partial-hello"} {
			key := fmt.Sprintf("TLS server (timeouts %v), one peer stalls in the handshake (%s) and stays connected, a second peer connects", to, probe)
			crumb("C10 " + key)
			r.eval(key, true)
			cfg := &tls.Config{Certificates: []tls.Certificate{serverCert}, ClientCAs: ca.Pool}
			c16ServerPrep(cfg)
			var calls int32
			s := &kmip.Server{TLSConfig: cfg, ReadTimeout: to, WriteTimeout: to}
			s.Handle(kmip.OPERATION_ACTIVATE, func(ctx *kmip.RequestContext, item *kmip.RequestBatchItem) (interface{}, error) {
				atomic.AddInt32(&calls, 1)
				return kmip.ActivateResponse{UniqueIdentifier: "x"}, nil
			})
			sa, ca1 := rec.Pipe()
			sb, cb := rec.Pipe()
			l := rec.NewListener()
			l.Push(rec.AcceptStep{Conn: tls.Server(rec.NewConn(sa, 1), cfg)})
			l.Push(rec.AcceptStep{Conn: tls.Server(rec.NewConn(sb, 2), cfg)})
			init := make(chan struct{})
			ret := make(chan error, 1)
			go func() { ret <- s.Serve(l, init) }()
			<-init
			if probe == "partial-hello" {
				_, _ = ca1.Write([]byte{0x16, 0x03, 0x01, 0x02, 0x00, 0x01})
			}
			time.Sleep(20 * time.Millisecond)
			served := make(chan string, 1)
			go func() {
				_ = cb.SetDeadline(time.Now().Add(4 * time.Second))
				leaf := tlsm.Leaf(ca, tlsm.LeafOpts{Host: "client.test", Client: true})
				tc := tls.Client(cb, &tls.Config{RootCAs: ca.Pool, ServerName: "kmip.test", Certificates: []tls.Certificate{leaf}})
				if err := tc.Handshake(); err != nil {
					served <- "handshake: " + err.Error()
					return
				}
				req := kmip.Request{Header: kmip.RequestHeader{Version: kmip.ProtocolVersion{Major: 1, Minor: 4}, BatchCount: 1},
					BatchItems: []kmip.RequestBatchItem{{Operation: kmip.OPERATION_ACTIVATE, RequestPayload: kmip.ActivateRequest{UniqueIdentifier: "a"}}}}
				var resp kmip.Response
				if err := kmip.NewEncoder(tc).Encode(&req); err != nil {
					served <- "send: " + err.Error()
				} else if err := kmip.NewDecoder(tc).Decode(&resp); err != nil {
					served <- "receive: " + err.Error()
				} else if len(resp.BatchItems) != 1 || resp.BatchItems[0].ResultStatus != kmip.RESULT_STATUS_SUCCESS {
					served <- "unexpected response"
				} else {
					served <- "served"
				}
			}()
			got := ""
			select {
			case got = <-served:
			case <-time.After(6 * time.Second):
				got = "no answer within 6s"
			}
			if got != "served" || atomic.LoadInt32(&calls) != 1 {
				r.find(Finding{Kind: "violation", What: "a peer stalling in its TLS handshake kept another connection from being served", Input: key, Expect: "second peer served (handler calls = 1)", Actual: fmt.Sprintf("%s (handler calls = %d)", got, atomic.LoadInt32(&calls))})
			}
			ca1.Close()
			cb.Close()
			ctx, cancel := context.WithTimeout(context.Background(), 5*time.Second)
			_ = s.Shutdown(ctx)
			cancel()
			select {
			case <-ret:
			case <-time.After(5 * time.Second):
			}
			r.Stats["tls-stalled-handshake-scenarios"]++
		}
	}
}

var _ net.Conn

// c10BadThenSilent: "the server's only reaction is to close that connection" - at once, not when the peer finally goes away. A
// peer sends something the server cannot accept (garbage, a Response, an inconsistent batch count, an asynchronous request;
// as first message or after an answered request) and then just stays connected, silent. No timeouts are configured. The
// server hangs up by itself, and Shutdown finds nothing left to wait for.
func c10BadThenSilent(r *Result) {
	ver := kmip.ProtocolVersion{Major: 1, Minor: 4}
	enc := func(v interface{}) []byte {
		var b bytesBuffer
		if err := kmip.NewEncoder(&b).Encode(v); err != nil {
			return nil
		}
		return b.b
	}
	good := enc(&kmip.Request{Header: kmip.RequestHeader{Version: ver, BatchCount: 1}, BatchItems: []kmip.RequestBatchItem{{Operation: kmip.OPERATION_DISCOVER_VERSIONS, RequestPayload: kmip.DiscoverVersionsRequest{}}}})
	bads := []struct {
		name string
		b    []byte
	}{
		{"16 bytes of garbage", []byte("GET / HTTP/1.1\r\n")},
		{"a Response instead of a Request", enc(&kmip.Response{Header: kmip.ResponseHeader{Version: ver, TimeStamp: time.Unix(1, 0), BatchCount: 0}})},
		{"a request whose Batch Count is one more than its items", enc(&kmip.Request{Header: kmip.RequestHeader{Version: ver, BatchCount: 2}, BatchItems: []kmip.RequestBatchItem{{Operation: kmip.OPERATION_DISCOVER_VERSIONS, RequestPayload: kmip.DiscoverVersionsRequest{}}}})},
		{"an asynchronous request", enc(&kmip.Request{Header: kmip.RequestHeader{Version: ver, AsynchronousIndicator: true, BatchCount: 1}, BatchItems: []kmip.RequestBatchItem{{Operation: kmip.OPERATION_DISCOVER_VERSIONS, RequestPayload: kmip.DiscoverVersionsRequest{}}}})},
		{"a request cut inside its header, followed by a complete one", append(append([]byte(nil), good[:20]...), good...)},
	}
	for _, bad := range bads {
		for _, after := range []int{0, 2} {
			key := fmt.Sprintf("no timeouts; after %d answered request(s) the peer sends %s and stays connected, silent", after, bad.name)
			crumb("C10 " + key)
			r.eval(key, true)
			s := &kmip.Server{}
			sc, cc := rec.Pipe()
			rc := rec.NewConn(sc, 1)
			l := rec.NewListener()
			l.Push(rec.AcceptStep{Conn: rc})
			init := make(chan struct{})
			ret := make(chan error, 1)
			go func() { ret <- s.Serve(l, init) }()
			<-init
			_ = cc.SetDeadline(time.Now().Add(8 * time.Second))
			ok := true
			dec := kmip.NewDecoder(cc)
			for i := 0; i < after; i++ {
				_, _ = cc.Write(good)
				var resp kmip.Response
				if err := dec.Decode(&resp); err != nil {
					ok = false
				}
			}
			if !ok {
				r.find(Finding{Kind: "disagreement", What: "c10BadThenSilent: the valid requests were not answered (harness)", Input: key})
			}
			go func() { _, _ = cc.Write(bad.b) }()
			closed := false
			select {
			case <-rc.Closed():
				closed = true
			case <-time.After(2 * time.Second):
			}
			if !closed {
				r.find(Finding{Kind: "violation", What: "the server did not close the connection of a peer whose message it could not accept; it goes on holding it for as long as the peer stays connected", Input: key, Expect: "connection closed by the server", Actual: "still open 2 s later"})
			}
			ctx, cancel := context.WithTimeout(context.Background(), 2*time.Second)
			sdErr := s.Shutdown(ctx)
			cancel()
			if closed && sdErr != nil {
				r.find(Finding{Kind: "violation", What: "the session of a peer that was hung up on was not released: Shutdown still waits for it", Input: key, Actual: fmt.Sprint(sdErr)})
			}
			cc.Close()
			select {
			case <-ret:
			case <-time.After(5 * time.Second):
			}
			r.Stats["bad-then-silent-scenarios"]++
		}
	}
}

type bytesBuffer struct{ b []byte }

func (w *bytesBuffer) Write(p []byte) (int, error) { w.b = append(w.b, p...); return len(p), nil }
