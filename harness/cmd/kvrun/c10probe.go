package main

import (
	"crypto/tls"
	"fmt"
	"time"

	"kvharness/internal/tlsm"
)

// c10Probes: the emptiest of all malformed streams on a TLS-serving Server - a peer that connects and goes away without a
// byte (a port scanner, a load balancer's health check), one that leaves after the first bytes of a TLS record, one that
// speaks plaintext KMIP to the TLS port. The only reaction is to close that connection: no session-auth callback (it is
// "called after TLS handshake", and there was none), no request-auth callback, no handler; then a regular peer is served.
func c10Probes(r *Result) {
	ca, other := tlsm.NewCA("c10-ca"), tlsm.NewCA("c10-foreign")
	serverCert := tlsm.Leaf(ca, tlsm.LeafOpts{Host: "kmip.test"})
	for _, to := range []time.Duration{2 * time.Second, 0} {
		for _, probe := range []string{"silent-close", "partial-hello"} {
			key := fmt.Sprintf("TLS server (timeouts %v), peer: %s", to, probe)
			crumb("C10 " + key)
			r.eval(key, true)
			ev, resp, err := attackServer(ca, other, serverCert, "none", tls.VersionTLS13, true, to, probe)
			if err != nil {
				r.find(Finding{Kind: "violation", What: "the server did not simply close the connection of a peer that left during the TLS handshake", Input: key, Actual: err.Error()})
			}
			if ev != "sessionAuth=0 requestAuth=0 handler=0" || resp {
				r.find(Finding{Kind: "violation", What: "a callback ran for a connection whose TLS handshake never completed", Input: key, Expect: "sessionAuth=0 requestAuth=0 handler=0", Actual: ev})
			}
			r.Stats["tls-probe-scenarios"]++
		}
		key := fmt.Sprintf("TLS server (timeouts %v), peer: plaintext KMIP", to)
		r.eval(key, true)
		ev, resp, err := attackServer(ca, other, serverCert, "none", tls.VersionTLS13, true, to, "")
		if err != nil || ev != "sessionAuth=0 requestAuth=0 handler=0" || resp {
			r.find(Finding{Kind: "violation", What: "plaintext KMIP sent to a TLS-serving Server was not answered by closing the connection and nothing else", Input: key, Expect: "sessionAuth=0 requestAuth=0 handler=0, no response", Actual: fmt.Sprintf("%s response=%v err=%v", ev, resp, err)})
		}
		// ... and the server is still there for a regular peer
		ev, resp, err = attackServer(ca, other, serverCert, "valid", tls.VersionTLS13, false, to, "")
		if err != nil || ev != "sessionAuth=1 requestAuth=1 handler=1" || !resp {
			r.find(Finding{Kind: "disagreement", What: "a regular TLS peer was not served in the probe scenario (harness)", Input: key, Actual: fmt.Sprintf("%s response=%v err=%v", ev, resp, err)})
		}
	}
}
