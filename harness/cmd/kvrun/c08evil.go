package main

import (
	"context"
	"errors"
	"fmt"
	"strings"
	"sync"
	"time"

	kmip "github.com/smira/go-kmip"

	"kvharness/internal/rec"
)

type nilDerefErr struct{ msg *string }

func (e *nilDerefErr) Error() string { return *e.msg } // panics on a nil receiver or nil msg

type panickyErr struct{}

func (panickyErr) Error() string { panic("broken Error method") }

type embeddedNilErr struct{ error }

type panickyStringer struct{}

func (panickyStringer) String() string { panic("broken String method") }

// c08EvilPanics: handlers that panic with values that are themselves hostile to whoever renders them (an error whose
// Error method panics, a typed nil error, a struct embedding a nil error, a Stringer that panics, nil). C08: a panic in one
// handler is that item's failure and nothing else — the other items keep their outcomes, the response is sent, and the
// process survives (the rendering of the panic value must not escape the recovery either).
func c08EvilPanics(r *Result) {
	var typedNil *nilDerefErr
	values := []struct {
		name string
		v    func() interface{}
	}{
		{"error whose Error method panics", func() interface{} { return panickyErr{} }},
		{"typed nil pointer error", func() interface{} { return typedNil }},
		{"pointer error with nil field", func() interface{} { return &nilDerefErr{} }},
		{"struct embedding a nil error", func() interface{} { return embeddedNilErr{} }},
		{"Stringer whose String method panics", func() interface{} { return panickyStringer{} }},
		{"a plain error value", func() interface{} { return fmt.Errorf("boom") }},
		{"an int", func() interface{} { return 42 }},
	}
	for _, pv := range values {
		key := "handler panics with: " + pv.name
		crumb("C08 scenario, batch [Activate ok, Destroy panics, Activate ok]; " + key)
		r.eval(key, true)
		s := &kmip.Server{}
		s.Handle(kmip.OPERATION_ACTIVATE, func(ctx *kmip.RequestContext, item *kmip.RequestBatchItem) (interface{}, error) {
			return kmip.ActivateResponse{UniqueIdentifier: "ok"}, nil
		})
		s.Handle(kmip.OPERATION_DESTROY, func(ctx *kmip.RequestContext, item *kmip.RequestBatchItem) (interface{}, error) {
			panic(pv.v())
		})
		sc, cc := rec.Pipe()
		rc := rec.NewConn(sc, 1)
		l := rec.NewListener()
		l.Push(rec.AcceptStep{Conn: rc})
		init := make(chan struct{})
		ret := make(chan error, 1)
		go func() { ret <- s.Serve(l, init) }()
		<-init
		_ = cc.SetDeadline(time.Now().Add(3 * time.Second))
		req := kmip.Request{Header: kmip.RequestHeader{Version: kmip.ProtocolVersion{Major: 1, Minor: 4}, BatchCount: 3},
			BatchItems: []kmip.RequestBatchItem{
				{Operation: kmip.OPERATION_ACTIVATE, UniqueID: []byte{1}, RequestPayload: kmip.ActivateRequest{UniqueIdentifier: "a"}},
				{Operation: kmip.OPERATION_DESTROY, UniqueID: []byte{2}, RequestPayload: kmip.DestroyRequest{UniqueIdentifier: "b"}},
				{Operation: kmip.OPERATION_ACTIVATE, UniqueID: []byte{3}, RequestPayload: kmip.ActivateRequest{UniqueIdentifier: "c"}},
			}}
		var resp kmip.Response
		err := kmip.NewEncoder(cc).Encode(&req)
		if err == nil {
			err = kmip.NewDecoder(cc).Decode(&resp)
		}
		obs := "no response: " + fmt.Sprint(err)
		if err == nil {
			obs = ""
			for _, it := range resp.BatchItems {
				obs += fmt.Sprintf("[op=%d id=%x status=%d reason=%d] ", uint32(it.Operation), it.UniqueID, uint32(it.ResultStatus), uint32(it.ResultReason))
			}
		}
		want := fmt.Sprintf("[op=%d id=01 status=0 reason=0] [op=%d id=02 status=1 reason=%d] [op=%d id=03 status=0 reason=0] ",
			uint32(kmip.OPERATION_ACTIVATE), uint32(kmip.OPERATION_DESTROY), uint32(kmip.RESULT_REASON_GENERAL_FAILURE), uint32(kmip.OPERATION_ACTIVATE))
		if obs != want {
			r.find(Finding{Kind: "violation", What: "a handler panic (with a value that is awkward to render) was not confined to its own batch item", Input: key, Expect: want, Actual: obs})
		}
		cc.Close()
		ctx, cancel := context.WithTimeout(context.Background(), 5*time.Second)
		_ = s.Shutdown(ctx)
		cancel()
		<-ret
		r.Stats["evil-panic-scenarios"]++
	}
}

type panickyReasonErr struct{}

func (panickyReasonErr) Error() string           { return "reason unavailable" }
func (panickyReasonErr) ResultReason() kmip.Enum { panic("broken ResultReason method") }

// c08EvilErrors: "nothing a handler returns ... terminates the process" - the ERROR a handler returns is the application's too.
// Handlers return (not panic with) errors that are hostile to whoever asks them for their text or reason: the classic typed
// nil pointer (`var e *MyErr; return nil, e`), a pointer error with a nil field, an error whose Error method panics, a struct
// embedding a nil error, a kmip.Error whose ResultReason method panics; and a handler that panics with nil (which recover()
// reports as nil under the language version the library declares). Each is that item's Operation Failed / General Failure;
// the neighbours keep their outcomes, the response is sent, the process survives.
func c08EvilErrors(r *Result) {
	var typedNil *nilDerefErr
	cases := []struct {
		name string
		h    kmip.Handler
	}{
		{"handler returns a typed nil pointer as its error", func(*kmip.RequestContext, *kmip.RequestBatchItem) (interface{}, error) { return nil, typedNil }},
		{"handler returns a pointer error with a nil field", func(*kmip.RequestContext, *kmip.RequestBatchItem) (interface{}, error) { return nil, &nilDerefErr{} }},
		{"handler returns an error whose Error method panics", func(*kmip.RequestContext, *kmip.RequestBatchItem) (interface{}, error) { return nil, panickyErr{} }},
		{"handler returns a struct embedding a nil error", func(*kmip.RequestContext, *kmip.RequestBatchItem) (interface{}, error) { return nil, embeddedNilErr{} }},
		{"handler returns a kmip.Error whose ResultReason method panics", func(*kmip.RequestContext, *kmip.RequestBatchItem) (interface{}, error) {
			return nil, panickyReasonErr{}
		}},
		{"handler panics with nil (GODEBUG panicnil=1, the meaning under the library's declared go 1.16)", func(*kmip.RequestContext, *kmip.RequestBatchItem) (interface{}, error) { panic(nil) }},
	}
	for _, c := range cases {
		key := c.name
		crumb("C08 scenario, batch [Activate ok, Destroy: " + key + ", Activate ok]")
		r.eval(key, true)
		s := &kmip.Server{}
		s.Handle(kmip.OPERATION_ACTIVATE, func(ctx *kmip.RequestContext, item *kmip.RequestBatchItem) (interface{}, error) {
			return kmip.ActivateResponse{UniqueIdentifier: "ok"}, nil
		})
		s.Handle(kmip.OPERATION_DESTROY, c.h)
		sc, cc := rec.Pipe()
		rc := rec.NewConn(sc, 1)
		l := rec.NewListener()
		l.Push(rec.AcceptStep{Conn: rc})
		init := make(chan struct{})
		ret := make(chan error, 1)
		go func() { ret <- s.Serve(l, init) }()
		<-init
		_ = cc.SetDeadline(time.Now().Add(3 * time.Second))
		req := kmip.Request{Header: kmip.RequestHeader{Version: kmip.ProtocolVersion{Major: 1, Minor: 4}, BatchCount: 3},
			BatchItems: []kmip.RequestBatchItem{
				{Operation: kmip.OPERATION_ACTIVATE, UniqueID: []byte{1}, RequestPayload: kmip.ActivateRequest{UniqueIdentifier: "a"}},
				{Operation: kmip.OPERATION_DESTROY, UniqueID: []byte{2}, RequestPayload: kmip.DestroyRequest{UniqueIdentifier: "b"}},
				{Operation: kmip.OPERATION_ACTIVATE, UniqueID: []byte{3}, RequestPayload: kmip.ActivateRequest{UniqueIdentifier: "c"}},
			}}
		var resp kmip.Response
		err := kmip.NewEncoder(cc).Encode(&req)
		if err == nil {
			err = kmip.NewDecoder(cc).Decode(&resp)
		}
		obs := "no response: " + fmt.Sprint(err)
		if err == nil {
			obs = ""
			for _, it := range resp.BatchItems {
				obs += fmt.Sprintf("[op=%d id=%x status=%d reason=%d payload=%v] ", uint32(it.Operation), it.UniqueID, uint32(it.ResultStatus), uint32(it.ResultReason), it.ResponsePayload != nil)
			}
		}
		want := fmt.Sprintf("[op=%d id=01 status=0 reason=0 payload=true] [op=%d id=02 status=1 reason=%d payload=false] [op=%d id=03 status=0 reason=0 payload=true] ",
			uint32(kmip.OPERATION_ACTIVATE), uint32(kmip.OPERATION_DESTROY), uint32(kmip.RESULT_REASON_GENERAL_FAILURE), uint32(kmip.OPERATION_ACTIVATE))
		if obs != want {
			r.find(Finding{Kind: "violation", What: "a hostile error returned by a handler (or a panic with nil) was not reported as that item's Operation Failed / General Failure and nothing else", Input: key, Expect: want, Actual: obs})
		}
		cc.Close()
		ctx, cancel := context.WithTimeout(context.Background(), 5*time.Second)
		_ = s.Shutdown(ctx)
		cancel()
		<-ret
		r.Stats["evil-error-scenarios"]++
	}
}

// c08ValueWithError: handlers that return BOTH a first result and an error - a half-filled response, a typed nil pointer, a
// value that cannot be encoded, a pointer to a response. C08: an item whose handler returned an error is Operation Failed with
// the error's message and reason and nothing else; whatever came back beside the error is not a payload, cannot make the
// response unencodable, and leaves the neighbouring items' results alone.
func c08ValueWithError(r *Result) {
	values := []struct {
		name string
		v    func() interface{}
	}{
		{"a filled-in response struct", func() interface{} { return kmip.DestroyResponse{UniqueIdentifier: "half"} }},
		{"a zero response struct", func() interface{} { return kmip.DestroyResponse{} }},
		{"a typed nil pointer", func() interface{} { return (*kmip.DestroyResponse)(nil) }},
		{"a pointer to a response", func() interface{} { return &kmip.DestroyResponse{UniqueIdentifier: "ptr"} }},
		{"a value that cannot be encoded (channel)", func() interface{} { return make(chan int) }},
		{"a value that cannot be encoded (map)", func() interface{} { return map[string]int{"a": 1} }},
		{"a response of another operation", func() interface{} { return kmip.GetResponse{UniqueIdentifier: "other"} }},
	}
	errs := []struct {
		name   string
		e      error
		reason kmip.Enum
	}{
		{"plain error", fmt.Errorf("nope"), kmip.RESULT_REASON_GENERAL_FAILURE},
		{"error with reason", reasonErr{"nope", kmip.RESULT_REASON_ITEM_NOT_FOUND}, kmip.RESULT_REASON_ITEM_NOT_FOUND},
	}
	for vi, pv := range values {
		for pos := 0; pos < 3; pos++ {
			ev := errs[(vi+pos)%len(errs)]
			key := fmt.Sprintf("handler returns %s together with a %s; failing item at position %d of 3", pv.name, ev.name, pos)
			crumb("C08 scenario: " + key)
			r.eval(key, true)
			s := &kmip.Server{}
			s.Handle(kmip.OPERATION_ACTIVATE, func(ctx *kmip.RequestContext, item *kmip.RequestBatchItem) (interface{}, error) {
				return kmip.ActivateResponse{UniqueIdentifier: "ok"}, nil
			})
			s.Handle(kmip.OPERATION_DESTROY, func(ctx *kmip.RequestContext, item *kmip.RequestBatchItem) (interface{}, error) {
				return pv.v(), ev.e
			})
			sc, cc := rec.Pipe()
			rc := rec.NewConn(sc, 1)
			l := rec.NewListener()
			l.Push(rec.AcceptStep{Conn: rc})
			init := make(chan struct{})
			ret := make(chan error, 1)
			go func() { ret <- s.Serve(l, init) }()
			<-init
			_ = cc.SetDeadline(time.Now().Add(3 * time.Second))
			req := kmip.Request{Header: kmip.RequestHeader{Version: kmip.ProtocolVersion{Major: 1, Minor: 4}, BatchCount: 3}}
			want := ""
			for i := 0; i < 3; i++ {
				if i == pos {
					req.BatchItems = append(req.BatchItems, kmip.RequestBatchItem{Operation: kmip.OPERATION_DESTROY, UniqueID: []byte{byte(i + 1)}, RequestPayload: kmip.DestroyRequest{UniqueIdentifier: "b"}})
					want += fmt.Sprintf("[op=%d id=%02x status=1 reason=%d msg=%q payload=<nil>] ", uint32(kmip.OPERATION_DESTROY), i+1, uint32(ev.reason), "nope")
				} else {
					req.BatchItems = append(req.BatchItems, kmip.RequestBatchItem{Operation: kmip.OPERATION_ACTIVATE, UniqueID: []byte{byte(i + 1)}, RequestPayload: kmip.ActivateRequest{UniqueIdentifier: "a"}})
					want += fmt.Sprintf("[op=%d id=%02x status=0 reason=0 msg=\"\" payload=kmip.ActivateResponse] ", uint32(kmip.OPERATION_ACTIVATE), i+1)
				}
			}
			var resp kmip.Response
			err := kmip.NewEncoder(cc).Encode(&req)
			if err == nil {
				err = kmip.NewDecoder(cc).Decode(&resp)
			}
			obs := "no response: " + fmt.Sprint(err)
			if err == nil {
				obs = ""
				for _, it := range resp.BatchItems {
					obs += fmt.Sprintf("[op=%d id=%x status=%d reason=%d msg=%q payload=%T] ", uint32(it.Operation), it.UniqueID, uint32(it.ResultStatus), uint32(it.ResultReason), it.ResultMessage, it.ResponsePayload)
				}
			}
			if obs != want {
				r.find(Finding{Kind: "violation", What: "an item whose handler returned an error (together with a first result) was not reported as exactly that failure, or disturbed its batch", Input: key, Expect: want, Actual: obs})
			}
			cc.Close()
			ctx, cancel := context.WithTimeout(context.Background(), 5*time.Second)
			_ = s.Shutdown(ctx)
			cancel()
			<-ret
			r.Stats["value-with-error-scenarios"]++
		}
	}
}

// c08SlowHandlers: a handler may take longer than the server's WriteTimeout (and ReadTimeout) - those bound the transport,
// not the operation. A batch [quick success, SLOW item, quick failure with a reason] on a server with short timeouts must be
// answered in full, each item with its own outcome, and the connection must go on serving the next request.
func c08SlowHandlers(r *Result) {
	const T = 100 * time.Millisecond
	for _, c := range []struct {
		rt, wt time.Duration
		slow   string
	}{{0, T, "success"}, {T, T, "error"}, {4 * T, T, "success"}, {0, T, "panic"}} {
		key := fmt.Sprintf("handler taking %v on a server with ReadTimeout=%v WriteTimeout=%v; the slow item ends in %s", 4*T, c.rt, c.wt, c.slow)
		crumb("C08 scenario: " + key)
		r.eval(key, true)
		s := &kmip.Server{ReadTimeout: c.rt, WriteTimeout: c.wt}
		s.Handle(kmip.OPERATION_ACTIVATE, func(ctx *kmip.RequestContext, item *kmip.RequestBatchItem) (interface{}, error) {
			return kmip.ActivateResponse{UniqueIdentifier: "ok"}, nil
		})
		s.Handle(kmip.OPERATION_REVOKE, func(ctx *kmip.RequestContext, item *kmip.RequestBatchItem) (interface{}, error) {
			time.Sleep(4 * T)
			switch c.slow {
			case "error":
				return nil, reasonErr{"late", kmip.RESULT_REASON_PERMISSION_DENIED}
			case "panic":
				panic("late")
			}
			return kmip.RevokeResponse{UniqueIdentifier: "slow"}, nil
		})
		s.Handle(kmip.OPERATION_DESTROY, func(ctx *kmip.RequestContext, item *kmip.RequestBatchItem) (interface{}, error) {
			return nil, reasonErr{"nope", kmip.RESULT_REASON_ITEM_NOT_FOUND}
		})
		sc, cc := rec.Pipe()
		l := rec.NewListener()
		l.Push(rec.AcceptStep{Conn: rec.NewConn(sc, 1)})
		init := make(chan struct{})
		ret := make(chan error, 1)
		go func() { ret <- s.Serve(l, init) }()
		<-init
		_ = cc.SetDeadline(time.Now().Add(5 * time.Second))
		enc, dec := kmip.NewEncoder(cc), kmip.NewDecoder(cc)
		req := kmip.Request{Header: kmip.RequestHeader{Version: kmip.ProtocolVersion{Major: 1, Minor: 4}, BatchCount: 3},
			BatchItems: []kmip.RequestBatchItem{
				{Operation: kmip.OPERATION_ACTIVATE, UniqueID: []byte{1}, RequestPayload: kmip.ActivateRequest{UniqueIdentifier: "a"}},
				{Operation: kmip.OPERATION_REVOKE, UniqueID: []byte{2}, RequestPayload: kmip.RevokeRequest{UniqueIdentifier: "b", RevocationReason: kmip.RevocationReason{RevocationReasonCode: 1}}},
				{Operation: kmip.OPERATION_DESTROY, UniqueID: []byte{3}, RequestPayload: kmip.DestroyRequest{UniqueIdentifier: "c"}},
			}}
		obs := ""
		for round := 0; round < 2; round++ {
			var resp kmip.Response
			err := enc.Encode(&req)
			if err == nil {
				err = dec.Decode(&resp)
			}
			if err != nil {
				obs += fmt.Sprintf("request %d: no response (%v) ", round+1, err)
				break
			}
			for _, it := range resp.BatchItems {
				obs += fmt.Sprintf("[%x status=%d reason=%d payload=%T] ", it.UniqueID, uint32(it.ResultStatus), uint32(it.ResultReason), it.ResponsePayload)
			}
		}
		mid := fmt.Sprintf("[02 status=0 reason=0 payload=kmip.RevokeResponse] ")
		switch c.slow {
		case "error":
			mid = fmt.Sprintf("[02 status=1 reason=%d payload=<nil>] ", uint32(kmip.RESULT_REASON_PERMISSION_DENIED))
		case "panic":
			mid = fmt.Sprintf("[02 status=1 reason=%d payload=<nil>] ", uint32(kmip.RESULT_REASON_GENERAL_FAILURE))
		}
		one := "[01 status=0 reason=0 payload=kmip.ActivateResponse] " + mid + fmt.Sprintf("[03 status=1 reason=%d payload=<nil>] ", uint32(kmip.RESULT_REASON_ITEM_NOT_FOUND))
		if obs != one+one {
			r.find(Finding{Kind: "violation", What: "a batch with a slow handler was not answered item by item (the time a handler takes must not count against the transport's timeouts)", Input: key, Expect: one + one, Actual: obs})
		}
		cc.Close()
		ctx, cancel := context.WithTimeout(context.Background(), 5*time.Second)
		_ = s.Shutdown(ctx)
		cancel()
		<-ret
		r.Stats["slow-handler-scenarios"]++
	}
}

// c08Messages: "Operation Failed with the error's message": the text a handler's error (or panic value) carries reaches the
// Result Message unchanged - percent signs, format verbs, quotes, line breaks, non-ASCII text, long text and the empty message.
func c08Messages(r *Result) {
	msgs := []string{"volume is 100% full", "key%2Fid not stored (%d%s)", "trailing %", "%%", "%!s(MISSING)", "%v %+v %#v %T %q %x", "two\nlines\tand a tab",
		"naïve ☃ 鍵", `quote " and \ backslash`, "", strings.Repeat("long message ", 400), "{{.}} ${x} %[1]d"}
	for mi, m := range msgs {
		for _, how := range []string{"plain error", "error with reason", "panic with a string", "panic with an error"} {
			key := fmt.Sprintf("handler fails (%s) with message %q", how, m[:min(len(m), 60)])
			crumb("C08 scenario: " + key)
			r.eval(key, true)
			s := &kmip.Server{}
			m := m
			s.Handle(kmip.OPERATION_DESTROY, func(ctx *kmip.RequestContext, item *kmip.RequestBatchItem) (interface{}, error) {
				switch how {
				case "plain error":
					return nil, errors.New(m)
				case "error with reason":
					return nil, reasonErr{m, kmip.RESULT_REASON_ITEM_NOT_FOUND}
				case "panic with a string":
					panic(m)
				}
				panic(errors.New(m))
			})
			sc, cc := rec.Pipe()
			l := rec.NewListener()
			l.Push(rec.AcceptStep{Conn: rec.NewConn(sc, 1)})
			init := make(chan struct{})
			ret := make(chan error, 1)
			go func() { ret <- s.Serve(l, init) }()
			<-init
			_ = cc.SetDeadline(time.Now().Add(3 * time.Second))
			req := kmip.Request{Header: kmip.RequestHeader{Version: kmip.ProtocolVersion{Major: 1, Minor: 4}, BatchCount: 2},
				BatchItems: []kmip.RequestBatchItem{
					{Operation: kmip.OPERATION_DESTROY, UniqueID: []byte{1}, RequestPayload: kmip.DestroyRequest{UniqueIdentifier: "b"}},
					{Operation: kmip.OPERATION_DISCOVER_VERSIONS, UniqueID: []byte{2}, RequestPayload: kmip.DiscoverVersionsRequest{}}}}
			var resp kmip.Response
			err := kmip.NewEncoder(cc).Encode(&req)
			if err == nil {
				err = kmip.NewDecoder(cc).Decode(&resp)
			}
			want := m
			if strings.HasPrefix(how, "panic") {
				want = "panic: " + m
			}
			got := "no response: " + fmt.Sprint(err)
			if err == nil && len(resp.BatchItems) == 2 {
				got = resp.BatchItems[0].ResultMessage
				if resp.BatchItems[0].ResultStatus != kmip.RESULT_STATUS_OPERATION_FAILED || resp.BatchItems[1].ResultStatus != kmip.RESULT_STATUS_SUCCESS {
					got = fmt.Sprintf("statuses %d/%d, message %q", uint32(resp.BatchItems[0].ResultStatus), uint32(resp.BatchItems[1].ResultStatus), got)
				}
			}
			if got != want {
				r.find(Finding{Kind: "violation", What: "the failed item's Result Message is not the error's message", Input: key, Expect: fmt.Sprintf("%q", want[:min(len(want), 300)]), Actual: fmt.Sprintf("%q", got[:min(len(got), 300)])})
			}
			cc.Close()
			ctx, cancel := context.WithTimeout(context.Background(), 5*time.Second)
			_ = s.Shutdown(ctx)
			cancel()
			<-ret
			r.Stats["message-text-scenarios"]++
		}
		_ = mi
	}
}

// c08Registration: "the handler registered for each item's operation is invoked" - whichever operation that is and whenever it
// was registered: a handler for Discover Versions (which has a built-in one) and handlers for ordinary operations, registered
// before Serve / after Serve started / replaced after Serve started. Each item's result must be its registered handler's.
func c08Registration(r *Result) {
	mk := func(log *[]string, mu *sync.Mutex, name string) kmip.Handler {
		return func(ctx *kmip.RequestContext, item *kmip.RequestBatchItem) (interface{}, error) {
			mu.Lock()
			*log = append(*log, name)
			mu.Unlock()
			return nil, reasonErr{name, kmip.RESULT_REASON_PERMISSION_DENIED}
		}
	}
	for _, when := range []string{"before Serve", "after Serve started", "before Serve, replaced after Serve started"} {
		key := "handlers for Discover Versions, Get and Destroy registered " + when
		crumb("C08 scenario: " + key)
		r.eval(key, true)
		var mu sync.Mutex
		var calls []string
		s := &kmip.Server{}
		ops := []kmip.Enum{kmip.OPERATION_DISCOVER_VERSIONS, kmip.OPERATION_GET, kmip.OPERATION_DESTROY}
		reg := func(prefix string) {
			for _, op := range ops {
				s.Handle(op, mk(&calls, &mu, fmt.Sprintf("%s%d", prefix, uint32(op))))
			}
		}
		want := "h"
		if when != "after Serve started" {
			reg("h")
		}
		sc, cc := rec.Pipe()
		l := rec.NewListener()
		init := make(chan struct{})
		ret := make(chan error, 1)
		go func() { ret <- s.Serve(l, init) }()
		<-init
		switch when {
		case "after Serve started":
			reg("h")
		case "before Serve, replaced after Serve started":
			reg("g")
			want = "g"
		}
		l.Push(rec.AcceptStep{Conn: rec.NewConn(sc, 1)})
		_ = cc.SetDeadline(time.Now().Add(3 * time.Second))
		req := kmip.Request{Header: kmip.RequestHeader{Version: kmip.ProtocolVersion{Major: 1, Minor: 4}, BatchCount: 3},
			BatchItems: []kmip.RequestBatchItem{
				{Operation: kmip.OPERATION_GET, UniqueID: []byte{1}, RequestPayload: kmip.GetRequest{UniqueIdentifier: "a"}},
				{Operation: kmip.OPERATION_DISCOVER_VERSIONS, UniqueID: []byte{2}, RequestPayload: kmip.DiscoverVersionsRequest{}},
				{Operation: kmip.OPERATION_DESTROY, UniqueID: []byte{3}, RequestPayload: kmip.DestroyRequest{UniqueIdentifier: "b"}}}}
		var resp kmip.Response
		err := kmip.NewEncoder(cc).Encode(&req)
		if err == nil {
			err = kmip.NewDecoder(cc).Decode(&resp)
		}
		obs := "no response: " + fmt.Sprint(err)
		if err == nil {
			mu.Lock()
			obs = "calls=" + strings.Join(calls, ",") + " results="
			mu.Unlock()
			for _, it := range resp.BatchItems {
				obs += fmt.Sprintf("[%d:%s]", uint32(it.ResultStatus), it.ResultMessage)
			}
		}
		exp := fmt.Sprintf("calls=%[1]s%[2]d,%[1]s%[3]d,%[1]s%[4]d results=[1:%[1]s%[2]d][1:%[1]s%[3]d][1:%[1]s%[4]d]", want, uint32(kmip.OPERATION_GET), uint32(kmip.OPERATION_DISCOVER_VERSIONS), uint32(kmip.OPERATION_DESTROY))
		if obs != exp {
			r.find(Finding{Kind: "violation", What: "a batch item was not handled by the handler registered for its operation", Input: key, Expect: exp, Actual: obs})
		}
		cc.Close()
		ctx, cancel := context.WithTimeout(context.Background(), 5*time.Second)
		_ = s.Shutdown(ctx)
		cancel()
		<-ret
		r.Stats["registration-scenarios"]++
	}
	// ... and registered / replaced while a connection is OPEN (it has exchanged a request already and is idle): the next batch on
	// that same connection goes through the handlers registered now
	{
		key := "Get registered before Serve; one request answered on the connection; then Handle registers Discover Versions and Destroy and replaces Get; then the batch [Get, Discover Versions, Destroy] on the SAME connection"
		crumb("C08 scenario: " + key)
		r.eval(key, true)
		var mu sync.Mutex
		var calls []string
		s := &kmip.Server{}
		s.Handle(kmip.OPERATION_GET, mk(&calls, &mu, fmt.Sprintf("h%d", uint32(kmip.OPERATION_GET))))
		sc, cc := rec.Pipe()
		l := rec.NewListener()
		init := make(chan struct{})
		ret := make(chan error, 1)
		go func() { ret <- s.Serve(l, init) }()
		<-init
		l.Push(rec.AcceptStep{Conn: rec.NewConn(sc, 1)})
		_ = cc.SetDeadline(time.Now().Add(3 * time.Second))
		enc, dec := kmip.NewEncoder(cc), kmip.NewDecoder(cc)
		first := kmip.Request{Header: kmip.RequestHeader{Version: kmip.ProtocolVersion{Major: 1, Minor: 4}, BatchCount: 1},
			BatchItems: []kmip.RequestBatchItem{{Operation: kmip.OPERATION_GET, RequestPayload: kmip.GetRequest{UniqueIdentifier: "a"}}}}
		var resp0 kmip.Response
		err := enc.Encode(&first)
		if err == nil {
			err = dec.Decode(&resp0)
		}
		ops := []kmip.Enum{kmip.OPERATION_DISCOVER_VERSIONS, kmip.OPERATION_GET, kmip.OPERATION_DESTROY}
		for _, op := range ops {
			s.Handle(op, mk(&calls, &mu, fmt.Sprintf("g%d", uint32(op))))
		}
		req := kmip.Request{Header: kmip.RequestHeader{Version: kmip.ProtocolVersion{Major: 1, Minor: 4}, BatchCount: 3},
			BatchItems: []kmip.RequestBatchItem{
				{Operation: kmip.OPERATION_GET, UniqueID: []byte{1}, RequestPayload: kmip.GetRequest{UniqueIdentifier: "a"}},
				{Operation: kmip.OPERATION_DISCOVER_VERSIONS, UniqueID: []byte{2}, RequestPayload: kmip.DiscoverVersionsRequest{}},
				{Operation: kmip.OPERATION_DESTROY, UniqueID: []byte{3}, RequestPayload: kmip.DestroyRequest{UniqueIdentifier: "b"}}}}
		var resp kmip.Response
		if err == nil {
			err = enc.Encode(&req)
		}
		if err == nil {
			err = dec.Decode(&resp)
		}
		obs := "no response: " + fmt.Sprint(err)
		if err == nil {
			mu.Lock()
			obs = "calls=" + strings.Join(calls, ",") + " results="
			mu.Unlock()
			for _, it := range resp.BatchItems {
				obs += fmt.Sprintf("[%d:%s]", uint32(it.ResultStatus), it.ResultMessage)
			}
		}
		exp := fmt.Sprintf("calls=h%[1]d,g%[1]d,g%[2]d,g%[3]d results=[1:g%[1]d][1:g%[2]d][1:g%[3]d]", uint32(kmip.OPERATION_GET), uint32(kmip.OPERATION_DISCOVER_VERSIONS), uint32(kmip.OPERATION_DESTROY))
		if obs != exp {
			r.find(Finding{Kind: "violation", What: "a batch item was not handled by the handler registered for its operation (handlers registered while the connection was open)", Input: key, Expect: exp, Actual: obs})
		}
		cc.Close()
		ctx, cancel := context.WithTimeout(context.Background(), 5*time.Second)
		_ = s.Shutdown(ctx)
		cancel()
		<-ret
		r.Stats["registration-scenarios"]++
	}
	// ... and withdrawn again: Handle(op, nil) is the API's only way to take a handler back (and to switch the built-in Discover
	// Versions handler off). An operation whose entry is nil has no handler registered: Operation Not Supported, like an
	// operation never mentioned - not a call through a nil func reported as a handler panic.
	for _, when := range []string{"before Serve", "after Serve started"} {
		key := "Destroy registered and withdrawn with Handle(op, nil), built-in Discover Versions withdrawn with Handle(op, nil), " + when
		crumb("C08 scenario: " + key)
		r.eval(key, true)
		var mu sync.Mutex
		var calls []string
		s := &kmip.Server{}
		s.Handle(kmip.OPERATION_GET, mk(&calls, &mu, "get"))
		s.Handle(kmip.OPERATION_DESTROY, mk(&calls, &mu, "destroy"))
		withdraw := func() {
			s.Handle(kmip.OPERATION_DESTROY, nil)
			s.Handle(kmip.OPERATION_DISCOVER_VERSIONS, nil)
		}
		if when == "before Serve" {
			withdraw()
		}
		sc, cc := rec.Pipe()
		l := rec.NewListener()
		init := make(chan struct{})
		ret := make(chan error, 1)
		go func() { ret <- s.Serve(l, init) }()
		<-init
		if when != "before Serve" {
			withdraw()
		}
		l.Push(rec.AcceptStep{Conn: rec.NewConn(sc, 1)})
		_ = cc.SetDeadline(time.Now().Add(3 * time.Second))
		req := kmip.Request{Header: kmip.RequestHeader{Version: kmip.ProtocolVersion{Major: 1, Minor: 4}, BatchCount: 4},
			BatchItems: []kmip.RequestBatchItem{
				{Operation: kmip.OPERATION_GET, UniqueID: []byte{1}, RequestPayload: kmip.GetRequest{UniqueIdentifier: "a"}},
				{Operation: kmip.OPERATION_DISCOVER_VERSIONS, UniqueID: []byte{2}, RequestPayload: kmip.DiscoverVersionsRequest{}},
				{Operation: kmip.OPERATION_DESTROY, UniqueID: []byte{3}, RequestPayload: kmip.DestroyRequest{UniqueIdentifier: "b"}},
				{Operation: kmip.OPERATION_GET, UniqueID: []byte{4}, RequestPayload: kmip.GetRequest{UniqueIdentifier: "c"}}}}
		var resp kmip.Response
		err := kmip.NewEncoder(cc).Encode(&req)
		if err == nil {
			err = kmip.NewDecoder(cc).Decode(&resp)
		}
		obs := "no response: " + fmt.Sprint(err)
		if err == nil {
			mu.Lock()
			obs = "calls=" + strings.Join(calls, ",") + " results="
			mu.Unlock()
			for _, it := range resp.BatchItems {
				obs += fmt.Sprintf("[%d:%d:%s]", uint32(it.ResultStatus), uint32(it.ResultReason), it.ResultMessage)
			}
		}
		// "before Serve": Serve installs the built-in Discover Versions handler when the table has no entry for it; an entry
		// withdrawn before Serve is no entry ... or is it? Either reading is a handler decision of the library's, not a panic:
		// accepted are Not Supported, or the built-in handler's Success.
		ns := fmt.Sprintf("[1:%d:operation not supported]", uint32(kmip.RESULT_REASON_OPERATION_NOT_SUPPORTED))
		get := fmt.Sprintf("[1:%d:get]", uint32(kmip.RESULT_REASON_PERMISSION_DENIED))
		exp := "calls=get,get results=" + get + ns + ns + get
		alt := "calls=get,get results=" + get + "[0:0:]" + ns + get
		if obs != exp && !(when == "before Serve" && obs == alt) {
			r.find(Finding{Kind: "violation", What: "an operation whose handler was withdrawn (Handle(op, nil)) was not reported as Operation Not Supported", Input: key, Expect: exp, Actual: obs})
		}
		cc.Close()
		ctx, cancel := context.WithTimeout(context.Background(), 5*time.Second)
		_ = s.Shutdown(ctx)
		cancel()
		<-ret
		r.Stats["registration-scenarios"]++
	}
}

// c08BusyServer: while one batch is in the middle of a handler that takes its time, the rest of the server goes on living: a
// second connection is accepted and served - and then the first batch is
// completed, every item (the built-in Discover Versions behind the slow one included) with its own outcome. Nothing a
// well-behaved handler does - taking a while is not a failure - may stop the items after it from being answered.
func c08BusyServer(r *Result) {
	for _, order := range []string{"[slow Get, Discover Versions]", "[Discover Versions, slow Get, Discover Versions]"} {
		key := "batch " + order + " on connection 1; while Get is in its handler: connection 2 is accepted and sends Discover Versions"
		crumb("C08 scenario: " + key)
		r.eval(key, true)
		s := &kmip.Server{}
		entered := make(chan struct{}, 4)
		release := make(chan struct{})
		s.Handle(kmip.OPERATION_GET, func(ctx *kmip.RequestContext, item *kmip.RequestBatchItem) (interface{}, error) {
			entered <- struct{}{}
			<-release
			return kmip.GetResponse{ObjectType: kmip.OBJECT_TYPE_SYMMETRIC_KEY, UniqueIdentifier: "slow"}, nil
		})
		sc1, cc1 := rec.Pipe()
		sc2, cc2 := rec.Pipe()
		l := rec.NewListener()
		l.Push(rec.AcceptStep{Conn: rec.NewConn(sc1, 1)})
		init := make(chan struct{})
		ret := make(chan error, 1)
		go func() { ret <- s.Serve(l, init) }()
		<-init
		_ = cc1.SetDeadline(time.Now().Add(8 * time.Second))
		_ = cc2.SetDeadline(time.Now().Add(8 * time.Second))
		ver := kmip.ProtocolVersion{Major: 1, Minor: 4}
		dv := kmip.RequestBatchItem{Operation: kmip.OPERATION_DISCOVER_VERSIONS, RequestPayload: kmip.DiscoverVersionsRequest{}}
		get := kmip.RequestBatchItem{Operation: kmip.OPERATION_GET, RequestPayload: kmip.GetRequest{UniqueIdentifier: "k"}}
		items := []kmip.RequestBatchItem{get, dv}
		if strings.HasPrefix(order, "[Discover") {
			items = []kmip.RequestBatchItem{dv, get, dv}
		}
		req1 := kmip.Request{Header: kmip.RequestHeader{Version: ver, BatchCount: int32(len(items))}, BatchItems: items}
		obs := ""
		if err := kmip.NewEncoder(cc1).Encode(&req1); err != nil {
			obs = "cannot send: " + err.Error()
		}
		select {
		case <-entered:
		case <-time.After(3 * time.Second):
			obs += "slow handler never entered; "
		}
		// the rest of the server while the batch is in flight
		l.Push(rec.AcceptStep{Conn: rec.NewConn(sc2, 2)})
		req2 := kmip.Request{Header: kmip.RequestHeader{Version: ver, BatchCount: 1}, BatchItems: []kmip.RequestBatchItem{dv}}
		var resp2 kmip.Response
		c2 := make(chan error, 1)
		go func() {
			if err := kmip.NewEncoder(cc2).Encode(&req2); err != nil {
				c2 <- err
				return
			}
			c2 <- kmip.NewDecoder(cc2).Decode(&resp2)
		}()
		select {
		case err := <-c2:
			obs += fmt.Sprintf("connection2-served=%v ", err == nil && len(resp2.BatchItems) == 1 && resp2.BatchItems[0].ResultStatus == kmip.RESULT_STATUS_SUCCESS)
		case <-time.After(2 * time.Second):
			obs += "connection2-served=false(no answer within 2 s) "
		}
		close(release)
		var resp1 kmip.Response
		if err := kmip.NewDecoder(cc1).Decode(&resp1); err != nil {
			obs += "batch1: no response: " + err.Error()
		} else {
			obs += "batch1:"
			for _, it := range resp1.BatchItems {
				obs += fmt.Sprintf("[op=%d status=%d]", uint32(it.Operation), uint32(it.ResultStatus))
			}
		}
		want := "connection2-served=true batch1:"
		for _, it := range items {
			want += fmt.Sprintf("[op=%d status=0]", uint32(it.Operation))
		}
		if obs != want {
			r.find(Finding{Kind: "violation", What: "a batch with a handler that takes its time was not completed item by item, or the server stopped serving others meanwhile", Input: key, Expect: want, Actual: obs})
		}
		cc1.Close()
		cc2.Close()
		ctx, cancel := context.WithTimeout(context.Background(), 3*time.Second)
		sdErr := s.Shutdown(ctx)
		cancel()
		if sdErr != nil {
			r.find(Finding{Kind: "violation", What: "after a batch with a slow handler the server could not be shut down", Input: key, Actual: sdErr.Error()})
		} else {
			<-ret
		}
		r.Stats["busy-server-scenarios"]++
	}
}
