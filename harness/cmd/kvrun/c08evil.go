package main

import (
	"context"
	"fmt"
	"time"

	kmip "github.com/smira/go-kmip"

	"kvharness/internal/rec"
)

type nilDerefErr struct{ msg *string }

func (e *nilDerefErr) Error() string { return *e.msg } // panics on a nil receiver or nil msg

type panickyErr struct{}

func (panickyErr) Error() string { panic("broken Error method") }

type embeddedNilErr struct{ error }

type panickyStringer struct{}

func (panickyStringer) String() string { panic("broken String method") }

// c08EvilPanics: handlers that panic with values that are themselves hostile to whoever renders them (an error whose
// Error method panics, a typed nil error, a struct embedding a nil error, a Stringer that panics, nil). C08: a panic in one
// handler is that item's failure and nothing else — the other items keep their outcomes, the response is sent, and the
// process survives (the rendering of the panic value must not escape the recovery either).
func c08EvilPanics(r *Result) {
	var typedNil *nilDerefErr
	values := []struct {
		name string
		v    func() interface{}
	}{
		{"error whose Error method panics", func() interface{} { return panickyErr{} }},
		{"typed nil pointer error", func() interface{} { return typedNil }},
		{"pointer error with nil field", func() interface{} { return &nilDerefErr{} }},
		{"struct embedding a nil error", func() interface{} { return embeddedNilErr{} }},
		{"Stringer whose String method panics", func() interface{} { return panickyStringer{} }},
		{"a plain error value", func() interface{} { return fmt.Errorf("boom") }},
		{"an int", func() interface{} { return 42 }},
	}
	for _, pv := range values {
		key := "handler panics with: " + pv.name
		crumb("C08 scenario, batch [Activate ok, Destroy panics, Activate ok]; " + key)
		r.eval(key, true)
		s := &kmip.Server{}
		s.Handle(kmip.OPERATION_ACTIVATE, func(ctx *kmip.RequestContext, item *kmip.RequestBatchItem) (interface{}, error) {
			return kmip.ActivateResponse{UniqueIdentifier: "ok"}, nil
		})
		s.Handle(kmip.OPERATION_DESTROY, func(ctx *kmip.RequestContext, item *kmip.RequestBatchItem) (interface{}, error) {
			panic(pv.v())
		})
		sc, cc := rec.Pipe()
		rc := rec.NewConn(sc, 1)
		l := rec.NewListener()
		l.Push(rec.AcceptStep{Conn: rc})
		init := make(chan struct{})
		ret := make(chan error, 1)
		go func() { ret <- s.Serve(l, init) }()
		<-init
		_ = cc.SetDeadline(time.Now().Add(3 * time.Second))
		req := kmip.Request{Header: kmip.RequestHeader{Version: kmip.ProtocolVersion{Major: 1, Minor: 4}, BatchCount: 3},
			BatchItems: []kmip.RequestBatchItem{
				{Operation: kmip.OPERATION_ACTIVATE, UniqueID: []byte{1}, RequestPayload: kmip.ActivateRequest{UniqueIdentifier: "a"}},
				{Operation: kmip.OPERATION_DESTROY, UniqueID: []byte{2}, RequestPayload: kmip.DestroyRequest{UniqueIdentifier: "b"}},
				{Operation: kmip.OPERATION_ACTIVATE, UniqueID: []byte{3}, RequestPayload: kmip.ActivateRequest{UniqueIdentifier: "c"}},
			}}
		var resp kmip.Response
		err := kmip.NewEncoder(cc).Encode(&req)
		if err == nil {
			err = kmip.NewDecoder(cc).Decode(&resp)
		}
		obs := "no response: " + fmt.Sprint(err)
		if err == nil {
			obs = ""
			for _, it := range resp.BatchItems {
				obs += fmt.Sprintf("[op=%d id=%x status=%d reason=%d] ", uint32(it.Operation), it.UniqueID, uint32(it.ResultStatus), uint32(it.ResultReason))
			}
		}
		want := fmt.Sprintf("[op=%d id=01 status=0 reason=0] [op=%d id=02 status=1 reason=%d] [op=%d id=03 status=0 reason=0] ",
			uint32(kmip.OPERATION_ACTIVATE), uint32(kmip.OPERATION_DESTROY), uint32(kmip.RESULT_REASON_GENERAL_FAILURE), uint32(kmip.OPERATION_ACTIVATE))
		if obs != want {
			r.find(Finding{Kind: "violation", What: "a handler panic (with a value that is awkward to render) was not confined to its own batch item", Input: key, Expect: want, Actual: obs})
		}
		cc.Close()
		ctx, cancel := context.WithTimeout(context.Background(), 5*time.Second)
		_ = s.Shutdown(ctx)
		cancel()
		<-ret
		r.Stats["evil-panic-scenarios"]++
	}
}
