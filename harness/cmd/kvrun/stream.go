package main

import (
	"bytes"
	"encoding/binary"
	"fmt"
	"io"
	"math/rand"
	"reflect"
	"sort"
	"strings"

	kmip "github.com/smira/go-kmip"

	"kvharness/internal/drv"
	"kvharness/internal/gen"
	"kvharness/internal/mut"
	"kvharness/internal/render"
)

// ---- C06: framing on a stream is independent of fragmentation --------------------------------------------------

func init() { props["C06"] = runC06 }

// splitSrc delivers data[:cut] in one read, then the rest (a two-way split at a given offset)
type splitSrc struct {
	data   []byte
	cut    int
	pos    int
	pulled int
}

func (s *splitSrc) Read(p []byte) (int, error) {
	if s.pos >= len(s.data) {
		return 0, io.EOF
	}
	end := len(s.data)
	if s.pos < s.cut {
		end = s.cut
	}
	n := copy(p, s.data[s.pos:end])
	s.pos += n
	s.pulled += n
	return n, nil
}

// boundarySrc delivers the messages one per Read (cut further only by len(p)), with `idle` zero-length reads (0, nil) in front
// of the first byte of every message and in front of the final io.EOF: a transport that is idle BETWEEN messages for as long as
// it likes, which is where a persistent connection spends its time
type boundarySrc struct {
	data   []byte
	bounds map[int]bool // offsets at which a message starts (and len(data))
	idle   int
	pos    int
	waited int
	pulled int
}

func (s *boundarySrc) Read(p []byte) (int, error) {
	if s.bounds[s.pos] && s.waited < s.idle {
		s.waited++
		return 0, nil
	}
	if s.pos >= len(s.data) {
		return 0, io.EOF
	}
	end := s.pos + 1
	for end < len(s.data) && !s.bounds[end] {
		end++
	}
	n := copy(p, s.data[s.pos:end])
	s.pos += n
	s.pulled += n
	if n > 0 {
		s.waited = 0
	}
	return n, nil
}

type splitScan struct{ *splitSrc }

func (s splitScan) ReadByte() (byte, error) {
	if s.pos >= len(s.data) {
		return 0, io.EOF
	}
	b := s.data[s.pos]
	s.pos++
	s.pulled++
	return b, nil
}
func (s splitScan) UnreadByte() error { s.pos--; s.pulled--; return nil }

// streamDecode: successive Decode calls (one target type per message, then one more of the last type) on one Decoder
func streamDecode(d *kmip.Decoder, types []reflect.Type, pulled func() int, unbuffered bool) string {
	var parts []string
	fin := "more"
	last := 0
	for _, t := range types {
		o := decodeWith(d, t)
		if o.class != "ok" {
			fin = o.class
			break
		}
		if unbuffered {
			parts = append(parts, fmt.Sprintf("%d %s", pulled()-last, o.value))
			last = pulled()
		} else {
			parts = append(parts, "_ "+o.value)
		}
	}
	return fin + " " + strings.Join(parts, " ; ")
}

func blankCounts(model string) string {
	// "ok REST FIN n v ; n v" -> "FIN _ v ; _ v"
	f := strings.SplitN(model, " ", 4)
	if len(f) < 3 {
		return model
	}
	rest := ""
	if len(f) == 4 {
		var parts []string
		for _, p := range strings.Split(f[3], " ; ") {
			q := strings.SplitN(p, " ", 2)
			if len(q) == 2 {
				parts = append(parts, "_ "+q[1])
			}
		}
		rest = strings.Join(parts, " ; ")
	}
	return f[2] + " " + rest
}

func keepCounts(model string) string {
	f := strings.SplitN(model, " ", 4)
	if len(f) < 3 {
		return model
	}
	if len(f) == 4 {
		return f[2] + " " + f[3]
	}
	return f[2] + " "
}

func runC06(r *Result, d *drv.Driver, tier string, seed int64, replay string) {
	nSeq := 40
	if tier == "thorough" {
		nSeq = 600
	}
	r.Rule = "sequences of 1..6 valid messages (requests and responses mixed, small and large) written back to back; the concatenation is decoded by successive Decode calls on ONE Decoder, followed by one more call that must report io.EOF: " +
		"exhaustively for every two-way split offset, and one byte at a time, in random chunks with zero-length reads, and with the last data returned together with EOF (random chunk sizes, and every read request satisfied in full), and message by message with 1, 99, 100, 150 and 1000 zero-length reads in front of every message and of the final EOF; every fifth stream ends with a message whose last item is an unpadded 24..64-byte string, another fifth with a message carrying a vendor extension (an item only a skip field claims) of 5..300 bytes; through a buffered source (plain io.Reader) and an unbuffered one (io.ByteScanner, where the exact bytes consumed per message are compared). " +
		"The transport model of Io.lean (ReadFull loop, LimitReader over chunked sources, about which the chunk-independence theorems are stated) is itself compared with Go's io.ReadFull / io.LimitReader on random chunkings; the full reader-stack model of IoStack.lean (bufio.Reader of several sizes over io.LimitReader over bufio … pushed and popped like nested decoders; ReadFull, ReadByte, CopyN into Discard, bare Read, read-to-the-end; runs of up to 102 empty reads) is compared with Go's bufio / io step by step; the decoder over that stack (DecodeStack.lean, the subject of C06_decode_over_any_chunking) is compared with the real Decode on valid and mutated messages cut into random chunks (value, outcome class, bytes fetched from the transport incl. read-ahead). Compared with the model's stream decoder and with the values originally encoded. distinct = distinct (sequence, delivery); non-trivial = more than one message"
	ioCorrespondence(r, d, seed, nSeq*50)
	ioStackCorrespondence(r, d, seed, nSeq*50)
	{
		gd := gen.New(seed + 6161)
		gd.WF = true
		decStackCorrespondence(r, d, gd, buildDecInputs(gd, nSeq, 3, mut.Kinds))
	}
	types := gen.StructTypes()
	g := gen.New(seed)
	g.WF = true
	rng := rand.New(rand.NewSource(seed))
	for i := 0; i < nSeq; i++ {
		k := 1 + rng.Intn(6)
		var data []byte
		var tnames []string
		var ttypes []reflect.Type
		var want []string
		g.Big = i%7 == 3
		// every fifth stream ends with a message whose last item is a string that needs no padding (24..64 bytes)
		var tail interface{}
		if i%5 == 1 {
			uid := strings.Repeat("0123456789abcdef", 4)[:[]int{24, 32, 40, 64}[rng.Intn(4)]]
			payload := []interface{}{kmip.DestroyRequest{UniqueIdentifier: uid}, kmip.ActivateRequest{UniqueIdentifier: uid}, kmip.GetRequest{UniqueIdentifier: uid}}[rng.Intn(3)]
			op := map[string]kmip.Enum{"DestroyRequest": kmip.OPERATION_DESTROY, "ActivateRequest": kmip.OPERATION_ACTIVATE, "GetRequest": kmip.OPERATION_GET}[reflect.TypeOf(payload).Name()]
			tail = &kmip.Request{Header: kmip.RequestHeader{Version: kmip.ProtocolVersion{Major: 1, Minor: 4}, BatchCount: 1},
				BatchItems: []kmip.RequestBatchItem{{Operation: op, RequestPayload: payload}}}
		}
		// ... and another fifth with a message that carries an item only a `skip` field can claim (a vendor extension): Encode never
		// writes one, so it is spliced into the encoding by hand; the value decoded is that of the message without it
		var spliced []byte
		if i%5 == 2 {
			tail = &kmip.Request{Header: kmip.RequestHeader{Version: kmip.ProtocolVersion{Major: 1, Minor: 4}, BatchCount: 1},
				BatchItems: []kmip.RequestBatchItem{{Operation: kmip.OPERATION_DISCOVER_VERSIONS, RequestPayload: kmip.DiscoverVersionsRequest{},
					MessageExtension: kmip.MessageExtension{VendorIdentification: "acme", CriticalityIndicator: true}}}}
			var eb bytes.Buffer
			if err := kmip.NewEncoder(&eb).Encode(tail); err == nil {
				data0 := eb.Bytes()
				for _, n := range mut.All(mut.Parse(data0)) {
					if n.Tag == 0x420051 {
						vlen := []int{5, 40, 64, 300}[rng.Intn(4)]
						pad := (8 - vlen%8) % 8
						item := append([]byte{0x42, 0x00, 0x7d, 0x08, byte(vlen >> 24), byte(vlen >> 16), byte(vlen >> 8), byte(vlen)}, make([]byte, vlen+pad)...)
						for x := 0; x < vlen; x++ {
							item[8+x] = byte(x + 1)
						}
						m := append(append(append([]byte(nil), data0[:n.End]...), item...), data0[n.End:]...)
						for p := n; p != nil; p = p.Parent {
							l := binary.BigEndian.Uint32(m[p.Off+4:])
							binary.BigEndian.PutUint32(m[p.Off+4:], l+uint32(len(item)))
						}
						spliced = m
					}
				}
			}
		}
		for j := 0; j < k; j++ {
			name := []string{"Request", "Response"}[rng.Intn(2)]
			if rng.Intn(5) == 0 {
				name = []string{"RequestHeader", "TemplateAttribute", "KeyBlock", "Attribute"}[rng.Intn(4)]
			}
			p := g.NewStruct(types[name])
			if tail != nil && j == k-1 {
				name = "Request"
				p = reflect.ValueOf(tail)
			}
			out, written, _ := realEncode(p.Interface())
			if !strings.HasPrefix(out, "ok") || len(written) == 0 {
				j--
				continue
			}
			if spliced != nil && tail != nil && j == k-1 {
				written = spliced
			}
			data = append(data, written...)
			tnames = append(tnames, name)
			ttypes = append(ttypes, types[name])
			want = append(want, fmt.Sprintf("%d %s", len(written), normTokens(render.Struct(p.Interface()))))
		}
		// one more Decode after the last message: must report io.EOF
		tnames = append(tnames, tnames[len(tnames)-1])
		ttypes = append(ttypes, ttypes[len(ttypes)-1])
		model, err := d.Ask(fmt.Sprintf("stream %s %s", strings.Join(tnames, ","), hx(data)))
		if err != nil {
			r.find(Finding{Kind: "disagreement", What: "driver failure", Input: err.Error()})
			return
		}
		expect := "eof " + strings.Join(want, " ; ")
		if keepCounts(model) != expect {
			r.find(Finding{Kind: "disagreement", What: "stream model does not return the encoded messages in order followed by EOF", Input: map[string]string{"types": strings.Join(tnames, ","), "bytes": hx(data)}, Expect: expect, Actual: keepCounts(model)})
		}
		check := func(delivery string, got string, unbuffered bool) {
			key := fmt.Sprintf("%d:%s", i, delivery)
			r.eval(key, k > 1)
			w := expect
			if !unbuffered {
				w = blankCounts("ok 0 " + expect)
			}
			if got != w {
				kind := "violation"
				what := "messages on a stream were not returned one by one, unaltered, followed by io.EOF, under delivery " + strings.SplitN(delivery, "@", 2)[0]
				r.find(Finding{Kind: kind, What: what, Input: map[string]string{"types": strings.Join(tnames, ","), "bytes": hx(data), "delivery": delivery}, Expect: w, Actual: got})
			}
		}
		if i == 0 {
			r.sample(map[string]string{"types": strings.Join(tnames, ","), "bytes": hx(data)[:min(200, 2*len(data))], "expected": expect[:min(200, len(expect))]})
		}
		// every two-way split offset
		step := 1
		if len(data) > 1500 {
			// long streams: a stride that keeps the sweep near 400 offsets, plus every offset within 16 bytes of a message boundary
			step = 7
			if len(data)/400 > step {
				step = len(data)/400 | 1
			}
		}
		cuts := map[int]bool{}
		for cut := 0; cut <= len(data); cut += step {
			cuts[cut] = true
		}
		if step > 1 {
			off := 0
			for _, w := range want {
				var l int
				fmt.Sscanf(w, "%d", &l)
				off += l
				for c := off - 16; c <= off+16; c++ {
					if c >= 0 && c <= len(data) {
						cuts[c] = true
					}
				}
			}
		}
		cutList := make([]int, 0, len(cuts))
		for c := range cuts {
			cutList = append(cutList, c)
		}
		sort.Ints(cutList)
		for _, cut := range cutList {
			s := &splitSrc{data: data, cut: cut}
			check(fmt.Sprintf("split-buffered@%d", cut), streamDecode(kmip.NewDecoder(s), ttypes, func() int { return s.pulled }, false), false)
			s2 := &splitSrc{data: data, cut: cut}
			check(fmt.Sprintf("split-unbuffered@%d", cut), streamDecode(kmip.NewDecoder(splitScan{s2}), ttypes, func() int { return s2.pulled }, true), true)
			r.Stats["delivery:split"] += 2
		}
		// zero-length reads between messages: any number of them (the tag of the next message is read with io.ReadFull, which
		// waits through them; nothing in front of a message may give up on an idle transport)
		for _, idle := range []int{1, 99, 100, 150, 1000} {
			bs := &boundarySrc{data: data, bounds: map[int]bool{}, idle: idle}
			off := 0
			bs.bounds[0] = true
			for _, w := range want {
				var l int
				fmt.Sscanf(w, "%d", &l)
				off += l
				bs.bounds[off] = true
			}
			check(fmt.Sprintf("idle-between-messages@%d-zero-length-reads", idle), streamDecode(kmip.NewDecoder(bs), ttypes, func() int { return bs.pulled }, false), false)
			r.Stats["delivery:idle-between-messages"]++
		}
		for _, mode := range []string{"onebyte", "chunks", "dataeof", "dataeof-full"} {
			for _, unb := range []bool{false, true} {
				s := &src{data: data, mode: mode, fin: io.EOF, r: rng}
				var dec *kmip.Decoder
				if unb {
					dec = kmip.NewDecoder(scanSrc{s})
				} else {
					dec = kmip.NewDecoder(s)
				}
				check(fmt.Sprintf("%s-unbuffered=%v", mode, unb), streamDecode(dec, ttypes, func() int { return s.pulled }, unb), unb)
				r.Stats["delivery:"+mode]++
			}
		}
		r.Stats[fmt.Sprintf("messages:%d", k)]++
	}
}
