// Package tlsm is a certificate factory for the TLS peer matrix of C16: a CA, a foreign CA, and leaf
// certificates that are valid, self-signed, issued by the foreign CA, expired, or issued for another host.
package tlsm

import (
	"crypto/ecdsa"
	"crypto/elliptic"
	"crypto/rand"
	"crypto/tls"
	"crypto/x509"
	"crypto/x509/pkix"
	"math/big"
	"net"
	"time"
)

type CA struct {
	Cert *x509.Certificate
	Key  *ecdsa.PrivateKey
	Pool *x509.CertPool
}

var serial int64 = 1000

func NewCA(name string) *CA {
	key, _ := ecdsa.GenerateKey(elliptic.P256(), rand.Reader)
	serial++
	tpl := &x509.Certificate{
		SerialNumber: big.NewInt(serial), Subject: pkix.Name{CommonName: name},
		NotBefore: time.Now().Add(-time.Hour), NotAfter: time.Now().Add(24 * time.Hour),
		IsCA: true, KeyUsage: x509.KeyUsageCertSign | x509.KeyUsageDigitalSignature, BasicConstraintsValid: true,
	}
	der, err := x509.CreateCertificate(rand.Reader, tpl, tpl, &key.PublicKey, key)
	if err != nil {
		panic(err)
	}
	cert, _ := x509.ParseCertificate(der)
	pool := x509.NewCertPool()
	pool.AddCert(cert)
	return &CA{cert, key, pool}
}

type LeafOpts struct {
	Host       string // DNS name / IP of the certificate
	Expired    bool
	SelfSigned bool
	Client     bool
	ValidFor   time.Duration // if non-zero: NotAfter = now + ValidFor (certificate times have one-second resolution)
}

// Leaf issues a leaf certificate (signed by ca unless SelfSigned)
func Leaf(ca *CA, o LeafOpts) tls.Certificate {
	key, _ := ecdsa.GenerateKey(elliptic.P256(), rand.Reader)
	serial++
	tpl := &x509.Certificate{
		SerialNumber: big.NewInt(serial), Subject: pkix.Name{CommonName: o.Host},
		NotBefore: time.Now().Add(-time.Hour), NotAfter: time.Now().Add(12 * time.Hour),
		KeyUsage:    x509.KeyUsageDigitalSignature,
		ExtKeyUsage: []x509.ExtKeyUsage{x509.ExtKeyUsageServerAuth, x509.ExtKeyUsageClientAuth},
	}
	if o.ValidFor != 0 {
		tpl.NotAfter = time.Now().Add(o.ValidFor)
	}
	if o.Expired {
		tpl.NotBefore, tpl.NotAfter = time.Now().Add(-48*time.Hour), time.Now().Add(-24*time.Hour)
	}
	if ip := net.ParseIP(o.Host); ip != nil {
		tpl.IPAddresses = []net.IP{ip}
	} else {
		tpl.DNSNames = []string{o.Host}
	}
	parent, signer := ca.Cert, ca.Key
	if o.SelfSigned {
		parent, signer = tpl, key
	}
	der, err := x509.CreateCertificate(rand.Reader, tpl, parent, &key.PublicKey, signer)
	if err != nil {
		panic(err)
	}
	return tls.Certificate{Certificate: [][]byte{der}, PrivateKey: key}
}
