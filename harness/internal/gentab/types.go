// Package gentab holds the tables kvscan generates from /repo's sources (tables_gen.go, not committed).
package gentab

type NamedType struct {
	Name string
	Val  interface{}
}

type NamedConst struct {
	Name, Typ string
	Num       uint64
	Str       string
}
