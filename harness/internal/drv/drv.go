// Package drv talks to the Lean model driver (kvdriver) over its line protocol.
package drv

import (
	"bufio"
	"fmt"
	"io"
	"os"
	"os/exec"
	"path/filepath"
	"sync"
)

type Driver struct {
	cmd *exec.Cmd
	in  io.WriteCloser
	out *bufio.Reader
	mu  sync.Mutex
	N   int // lines exchanged
}

// Path of the compiled driver: $KVDRIVER or <verif>/lean/.lake/build/bin/kvdriver
func Path() string {
	if p := os.Getenv("KVDRIVER"); p != "" {
		return p
	}
	root := os.Getenv("VERIF_ROOT")
	if root == "" {
		root = "/verif"
	}
	return filepath.Join(root, "lean", ".lake", "build", "bin", "kvdriver")
}

func Start() (*Driver, error) {
	cmd := exec.Command(Path())
	in, err := cmd.StdinPipe()
	if err != nil {
		return nil, err
	}
	out, err := cmd.StdoutPipe()
	if err != nil {
		return nil, err
	}
	cmd.Stderr = os.Stderr
	if err := cmd.Start(); err != nil {
		return nil, err
	}
	return &Driver{cmd: cmd, in: in, out: bufio.NewReaderSize(out, 1<<20)}, nil
}

// Ask sends one line and returns the one-line reply (without newline)
func (d *Driver) Ask(line string) (string, error) {
	d.mu.Lock()
	defer d.mu.Unlock()
	if _, err := io.WriteString(d.in, line+"\n"); err != nil {
		return "", err
	}
	d.N++
	return d.read()
}

func (d *Driver) read() (string, error) {
	s, err := d.out.ReadString('\n')
	if err != nil {
		return "", fmt.Errorf("driver died: %v", err)
	}
	return s[:len(s)-1], nil
}

// AskAll pipelines many lines (writer goroutine + reader) and returns the replies in order
func (d *Driver) AskAll(lines []string) ([]string, error) {
	d.mu.Lock()
	defer d.mu.Unlock()
	errc := make(chan error, 1)
	go func() {
		w := bufio.NewWriterSize(d.in, 1<<20)
		for _, l := range lines {
			if _, err := w.WriteString(l + "\n"); err != nil {
				errc <- err
				return
			}
		}
		errc <- w.Flush()
	}()
	out := make([]string, 0, len(lines))
	for range lines {
		s, err := d.read()
		if err != nil {
			return out, err
		}
		out = append(out, s)
	}
	d.N += len(lines)
	return out, <-errc
}

func (d *Driver) Close() {
	d.in.Close()
	_ = d.cmd.Wait()
}
