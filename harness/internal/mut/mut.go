// Package mut mutates TTLV byte strings: tree-level (item deletion / duplication / reordering / splicing,
// with and without repairing the enclosing lengths) and byte-level (tag, type, length fields at boundary
// values, truncation, padding, booleans, random bytes).
package mut

import (
	"encoding/binary"
	"math/rand"
)

// Node is one TTLV item located inside a byte string (generic parse: type 1 = structure)
type Node struct {
	Off, HdrLen int // offset of the header; always 8
	Tag         uint32
	Typ         byte
	Len         uint32 // declared
	End         int    // offset just past the padded item
	Kids        []*Node
	Parent      *Node
}

// Parse parses as much of b as forms a well-nested TTLV forest; returns the top-level nodes
func Parse(b []byte) []*Node {
	var out []*Node
	parseInto(b, 0, len(b), nil, &out, 0)
	return out
}

func parseInto(b []byte, off, end int, parent *Node, out *[]*Node, depth int) {
	for off+8 <= end && depth < 64 {
		n := &Node{Off: off, HdrLen: 8, Parent: parent}
		n.Tag = uint32(b[off])<<16 | uint32(b[off+1])<<8 | uint32(b[off+2])
		n.Typ = b[off+3]
		n.Len = binary.BigEndian.Uint32(b[off+4:])
		pl := int64(n.Len)
		if pl%8 != 0 {
			pl += 8 - pl%8
		}
		if int64(off)+8+pl > int64(end) {
			return
		}
		n.End = off + 8 + int(pl)
		if n.Typ == 1 {
			parseInto(b, off+8, off+8+int(n.Len), n, &n.Kids, depth+1)
		}
		*out = append(*out, n)
		off = n.End
	}
}

// All flattens the forest
func All(ns []*Node) []*Node {
	var out []*Node
	var walk func(n *Node)
	walk = func(n *Node) {
		out = append(out, n)
		for _, k := range n.Kids {
			walk(k)
		}
	}
	for _, n := range ns {
		walk(n)
	}
	return out
}

var lenDeltas = []int64{1, -1, 2, -2, 3, -3, 4, -4, 5, -5, 6, -6, 7, -7, 8, -8, 9, -9, 11, -11, 13, -13, 16, -16}
var lenAbs = []uint32{0, 1, 7, 8, 9, 1 << 31, 1<<32 - 1, 1<<32 - 8, 1<<32 - 7, 1<<32 - 9, 1 << 16, 1 << 20, 1 << 30, 4096, 4097}

func clone(b []byte) []byte { return append([]byte(nil), b...) }

// fixLens adjusts the declared length of every ancestor of n by delta
func fixLens(b []byte, n *Node, delta int) {
	for p := n.Parent; p != nil; p = p.Parent {
		l := binary.BigEndian.Uint32(b[p.Off+4:])
		binary.BigEndian.PutUint32(b[p.Off+4:], uint32(int64(l)+int64(delta)))
	}
}

// Kinds of mutation (names are reported in the evidence)
var Kinds = []string{"tag", "type", "len-delta", "len-abs", "truncate", "delete", "delete-fix", "dup", "dup-fix", "swap",
	"splice", "splice-fix", "bool", "pad", "flip", "random", "append", "zero-tag", "value"}

// Mutate applies one mutation of the given kind to b (other supplies material for splicing); ok=false if not applicable
func Mutate(r *rand.Rand, kind string, b []byte, other []byte) (out []byte, ok bool) {
	nodes := All(Parse(b))
	if len(nodes) == 0 && kind != "random" && kind != "truncate" && kind != "flip" && kind != "append" {
		return nil, false
	}
	pick := func() *Node { return nodes[r.Intn(len(nodes))] }
	switch kind {
	case "tag":
		n := pick()
		out = clone(b)
		var t uint32
		switch r.Intn(6) {
		case 0:
			t = 0
		case 1:
			t = 0xffffff
		case 2:
			t = n.Tag + 1
		case 3:
			t = n.Tag - 1
		case 4:
			t = 0x420000 + uint32(r.Intn(0x125))
		default:
			t = uint32(r.Intn(1 << 24))
		}
		out[n.Off], out[n.Off+1], out[n.Off+2] = byte(t>>16), byte(t>>8), byte(t)
		return out, true
	case "zero-tag":
		n := pick()
		out = clone(b)
		out[n.Off], out[n.Off+1], out[n.Off+2] = 0, 0, 0
		return out, true
	case "type":
		n := pick()
		out = clone(b)
		out[n.Off+3] = []byte{0, 1, 2, 3, 4, 5, 6, 7, 8, 9, 10, 11, 0xff}[r.Intn(13)]
		return out, true
	case "len-delta":
		n := pick()
		out = clone(b)
		d := lenDeltas[r.Intn(len(lenDeltas))]
		binary.BigEndian.PutUint32(out[n.Off+4:], uint32(int64(n.Len)+d))
		return out, true
	case "len-abs":
		n := pick()
		out = clone(b)
		binary.BigEndian.PutUint32(out[n.Off+4:], lenAbs[r.Intn(len(lenAbs))])
		return out, true
	case "truncate":
		if len(b) == 0 {
			return nil, false
		}
		return clone(b[:r.Intn(len(b))]), true
	case "delete", "delete-fix":
		n := pick()
		if n.Parent == nil {
			return nil, false
		}
		out = append(clone(b[:n.Off]), b[n.End:]...)
		if kind == "delete-fix" {
			fixLens(out, n, -(n.End - n.Off))
		}
		return out, true
	case "dup", "dup-fix":
		n := pick()
		if n.Parent == nil {
			return nil, false
		}
		out = append(clone(b[:n.End]), b[n.Off:]...)
		if kind == "dup-fix" {
			fixLens(out, n, n.End-n.Off)
		}
		return out, true
	case "swap":
		n := pick()
		if n.Parent == nil || len(n.Parent.Kids) < 2 {
			return nil, false
		}
		ks := n.Parent.Kids
		i := r.Intn(len(ks) - 1)
		a, c := ks[i], ks[i+1]
		out = clone(b[:a.Off])
		out = append(out, b[c.Off:c.End]...)
		out = append(out, b[a.Off:a.End]...)
		out = append(out, b[c.End:]...)
		return out, true
	case "splice", "splice-fix":
		on := All(Parse(other))
		if len(on) == 0 {
			return nil, false
		}
		src := on[r.Intn(len(on))]
		n := pick()
		if n.Parent == nil {
			return nil, false
		}
		piece := other[src.Off:src.End]
		out = append(clone(b[:n.Off]), piece...)
		out = append(out, b[n.Off:]...)
		if kind == "splice-fix" {
			fixLens(out, n, len(piece))
		}
		return out, true
	case "bool":
		var bs []*Node
		for _, n := range nodes {
			if n.Typ == 6 && n.Len == 8 {
				bs = append(bs, n)
			}
		}
		if len(bs) == 0 {
			return nil, false
		}
		n := bs[r.Intn(len(bs))]
		out = clone(b)
		switch r.Intn(3) {
		case 0:
			out[n.Off+15] = 2
		case 1:
			out[n.Off+8+r.Intn(7)] = 1
		default:
			out[n.Off+15] = 0xff
		}
		return out, true
	case "pad":
		var ps []*Node
		for _, n := range nodes {
			if n.Typ != 1 && n.Len%8 != 0 {
				ps = append(ps, n)
			}
		}
		if len(ps) == 0 {
			return nil, false
		}
		n := ps[r.Intn(len(ps))]
		out = clone(b)
		out[n.End-1] = byte(1 + r.Intn(255))
		return out, true
	case "value":
		var ps []*Node
		for _, n := range nodes {
			if n.Typ != 1 && n.Len > 0 {
				ps = append(ps, n)
			}
		}
		if len(ps) == 0 {
			return nil, false
		}
		n := ps[r.Intn(len(ps))]
		out = clone(b)
		out[n.Off+8+r.Intn(int(n.Len))] ^= byte(1 + r.Intn(255))
		return out, true
	case "flip":
		if len(b) == 0 {
			return nil, false
		}
		out = clone(b)
		out[r.Intn(len(out))] ^= 1 << uint(r.Intn(8))
		return out, true
	case "append":
		out = clone(b)
		k := 1 + r.Intn(16)
		for i := 0; i < k; i++ {
			out = append(out, byte(r.Intn(256)))
		}
		return out, true
	case "random":
		k := r.Intn(64)
		out = make([]byte, k)
		for i := range out {
			out[i] = byte(r.Intn(256))
		}
		if k >= 4 && r.Intn(2) == 0 {
			out[0], out[1], out[2], out[3] = 0x42, 0x00, 0x78, 0x01
		}
		return out, true
	}
	return nil, false
}
