package rec

import (
	"fmt"
	"net"
	"os"
	"sync"
	"time"
)

// Log is an ordered event log shared by a recording connection and the callbacks/handlers of its session
type Log struct {
	mu     sync.Mutex
	events []string
	last   string
	Writes [][]byte // bytes of each collapsed write run
}

func (l *Log) Add(format string, a ...interface{}) {
	l.mu.Lock()
	defer l.mu.Unlock()
	e := fmt.Sprintf(format, a...)
	l.events = append(l.events, e)
	l.last = e
}

// collapse consecutive identical I/O events into one
func (l *Log) io(kind string, data []byte) {
	l.mu.Lock()
	defer l.mu.Unlock()
	if l.last != kind {
		l.events = append(l.events, kind)
		l.last = kind
		if kind == "write" {
			l.Writes = append(l.Writes, nil)
		}
	}
	if kind == "write" {
		l.Writes[len(l.Writes)-1] = append(l.Writes[len(l.Writes)-1], data...)
	}
}

func (l *Log) Events() []string {
	l.mu.Lock()
	defer l.mu.Unlock()
	return append([]string(nil), l.events...)
}

func (l *Log) WriteRuns() [][]byte {
	l.mu.Lock()
	defer l.mu.Unlock()
	out := make([][]byte, len(l.Writes))
	for i, w := range l.Writes {
		out[i] = append([]byte(nil), w...)
	}
	return out
}

// Conn wraps a net.Conn and records deadlines, the first read / write of each run, and close.
type Conn struct {
	net.Conn
	L *Log
	// FailWriteRun: Write returns an error (nothing delivered) from the n-th TTLV message on (0 = never)
	FailWriteRun int
	// FailWriteErr: the error a refused write returns (default ErrInjected); FailWritePartial: that many bytes of the refused
	// write are delivered before the error is returned; FailWriteOnce: only the first refused write fails, later ones go through
	// (a transient fault, the kind a retry would survive)
	FailWriteErr     error
	FailWritePartial int
	FailWriteOnce    bool
	// StallWriteFrom: from the n-th TTLV message on (0 = never) the peer has stopped reading: Write blocks until the write
	// deadline in force passes (then reports os.ErrDeadlineExceeded, nothing delivered) or, without one, until Close
	StallWriteFrom int
	stallMsgs      int
	stallPending   int
	wdl            time.Time
	failedOnce     bool
	closed         chan struct{}
	once           sync.Once
	ID             int
	msgs           int
	pending        int
	// OnClose runs synchronously inside the first Close call
	OnClose func()
}

func NewConn(c net.Conn, id int) *Conn {
	return &Conn{Conn: c, L: &Log{}, closed: make(chan struct{}), ID: id}
}

func (c *Conn) Read(p []byte) (int, error) {
	c.L.io("read", nil)
	return c.Conn.Read(p)
}

func (c *Conn) Write(p []byte) (int, error) {
	if c.StallWriteFrom > 0 {
		c.L.mu.Lock()
		if c.stallPending == 0 && len(p) >= 8 {
			c.stallMsgs++
			c.stallPending = 8 + (int(p[4])<<24 | int(p[5])<<16 | int(p[6])<<8 | int(p[7]))
		}
		stall := c.stallMsgs >= c.StallWriteFrom
		if !stall {
			c.stallPending -= len(p)
			if c.stallPending < 0 {
				c.stallPending = 0
			}
		}
		dl := c.wdl
		c.L.mu.Unlock()
		if stall {
			c.L.Add("writeStall")
			if dl.IsZero() {
				<-c.closed
				return 0, net.ErrClosed
			}
			select {
			case <-time.After(time.Until(dl)):
				return 0, os.ErrDeadlineExceeded
			case <-c.closed:
				return 0, net.ErrClosed
			}
		}
	}
	if c.FailWriteRun > 0 {
		// count TTLV messages by their declared lengths: the n-th message (and everything after) is refused
		c.L.mu.Lock()
		if c.pending == 0 && len(p) >= 8 {
			c.msgs++
			c.pending = 8 + int(p[4])<<24 | int(p[5])<<16 | int(p[6])<<8 | int(p[7])
			c.pending = 8 + (int(p[4])<<24 | int(p[5])<<16 | int(p[6])<<8 | int(p[7]))
		}
		fail := c.msgs >= c.FailWriteRun && !(c.FailWriteOnce && c.failedOnce)
		if !fail {
			c.pending -= len(p)
			if c.pending < 0 {
				c.pending = 0
			}
		}
		c.L.mu.Unlock()
		if fail {
			c.L.Add("writeFail")
			c.L.mu.Lock()
			c.failedOnce = true
			c.L.mu.Unlock()
			err := c.FailWriteErr
			if err == nil {
				err = ErrInjected
			}
			n := 0
			if k := c.FailWritePartial; k > 0 {
				if k > len(p) {
					k = len(p)
				}
				n, _ = c.Conn.Write(p[:k])
			}
			return n, err
		}
	}
	c.L.io("write", p)
	return c.Conn.Write(p)
}

func (c *Conn) Close() error {
	c.once.Do(func() {
		if c.OnClose != nil {
			c.OnClose()
		}
		c.L.Add("close")
		close(c.closed)
	})
	return c.Conn.Close()
}

// Closed is closed when the server closed the connection
func (c *Conn) Closed() <-chan struct{} { return c.closed }

func (c *Conn) SetReadDeadline(t time.Time) error {
	if !t.IsZero() {
		c.L.Add("armRead")
	} else {
		c.L.Add("clearRead")
	}
	return c.Conn.SetReadDeadline(t)
}

func (c *Conn) SetWriteDeadline(t time.Time) error {
	c.L.mu.Lock()
	c.wdl = t
	c.L.mu.Unlock()
	if !t.IsZero() {
		c.L.Add("armWrite")
	} else {
		c.L.Add("clearWrite")
	}
	return c.Conn.SetWriteDeadline(t)
}

func (c *Conn) SetDeadline(t time.Time) error {
	c.L.mu.Lock()
	c.wdl = t
	c.L.mu.Unlock()
	c.L.Add("armBoth")
	return c.Conn.SetDeadline(t)
}

// ---- scriptable listener ---------------------------------------------------------------------------------

// AcceptStep is one scripted outcome of Accept
type AcceptStep struct {
	Conn      net.Conn // non-nil: return this connection
	Temporary bool     // return a temporary net.Error
	Permanent bool     // return a permanent error
	Err       error    // the error to return for Temporary / Permanent (default: tempErr{} / ErrPermanent)
	Before    func()   // run inside Accept before returning (e.g. call Shutdown to land it between Accept and registration)
}

type tempErr struct{}

// TempTimeoutErr is temporary AND a timeout; TimeoutOnlyErr is a timeout that is NOT temporary (so: permanent)
type TempTimeoutErr struct{}

func (TempTimeoutErr) Error() string   { return "temporary accept timeout" }
func (TempTimeoutErr) Timeout() bool   { return true }
func (TempTimeoutErr) Temporary() bool { return true }

type TimeoutOnlyErr struct{}

func (TimeoutOnlyErr) Error() string   { return "accept deadline exceeded" }
func (TimeoutOnlyErr) Timeout() bool   { return true }
func (TimeoutOnlyErr) Temporary() bool { return false }

func (tempErr) Error() string   { return "temporary accept failure" }
func (tempErr) Timeout() bool   { return false }
func (tempErr) Temporary() bool { return true }

type permErr struct{}

func (permErr) Error() string { return "permanent accept failure" }

var ErrPermanent error = permErr{}
var ErrListenerClosed = fmt.Errorf("listener closed")

// Listener delivers scripted accept outcomes; once the script is exhausted Accept blocks until Close.
type Listener struct {
	mu      sync.Mutex
	steps   chan AcceptStep
	closed  chan struct{}
	once    sync.Once
	Accepts int
	Log     *Log
	// TempWhenClosed: once closed, Accept keeps reporting a TEMPORARY error (a listener may: "use of closed connection" is
	// only a convention) instead of ErrListenerClosed
	TempWhenClosed bool
	// CloseAgainErr: what Close reports when the listener is closed already (net.TCPListener reports "use of closed network
	// connection"; a listener of the application's may report whatever it likes)
	CloseAgainErr error
	// CloseDelay: Close wakes a blocked Accept at once but returns only after this long (a listener that has cleaning up to
	// do: unlinking a socket, draining a queue). Whatever order Shutdown does things in, the accept loop must not mistake
	// the woken Accept's error for a failure of the listener.
	CloseDelay time.Duration
	// CloseErr: what the FIRST Close reports although it did close the listener (a listener with cleaning up to do that
	// went wrong: a socket file that could not be unlinked)
	CloseErr error
	// NilAddr: Addr returns nil (an in-memory listener has no network address; Serve needs none)
	NilAddr bool
}

func NewListener() *Listener {
	return &Listener{steps: make(chan AcceptStep, 1024), closed: make(chan struct{}), Log: &Log{}}
}

func (l *Listener) Push(s AcceptStep) { l.steps <- s }

// Pending: accept steps pushed but not yet taken by Accept
func (l *Listener) Pending() int { return len(l.steps) }

func (l *Listener) closedErr() error {
	l.mu.Lock()
	l.Accepts++
	t := l.TempWhenClosed
	l.mu.Unlock()
	if t {
		l.Log.Add("accept:temporary-after-close")
		return tempErr{}
	}
	return ErrListenerClosed
}

func (l *Listener) Accept() (net.Conn, error) {
	select {
	case <-l.closed:
		return nil, l.closedErr()
	default:
	}
	select {
	case <-l.closed:
		return nil, l.closedErr()
	case s := <-l.steps:
		l.mu.Lock()
		l.Accepts++
		l.mu.Unlock()
		if s.Before != nil {
			s.Before()
		}
		switch {
		case s.Conn != nil:
			l.Log.Add("accept:conn")
			return s.Conn, nil
		case s.Temporary:
			l.Log.Add("accept:temporary")
			if s.Err != nil {
				return nil, s.Err
			}
			return nil, tempErr{}
		default:
			l.Log.Add("accept:permanent")
			if s.Err != nil {
				return nil, s.Err
			}
			return nil, ErrPermanent
		}
	}
}

func (l *Listener) Close() error {
	first := false
	l.once.Do(func() {
		first = true
		l.Log.Add("listener:close")
		close(l.closed)
		if l.CloseDelay > 0 {
			time.Sleep(l.CloseDelay)
		}
	})
	if !first {
		return l.CloseAgainErr
	}
	return l.CloseErr
}

func (l *Listener) IsClosed() bool {
	select {
	case <-l.closed:
		return true
	default:
		return false
	}
}

func (l *Listener) Addr() net.Addr {
	if l.NilAddr {
		return nil
	}
	return memAddr("listener")
}
