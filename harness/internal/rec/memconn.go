// Package rec provides in-memory, recording network objects through which the harness drives the real
// Server/Client: a buffered duplex net.Conn with deadlines, a recording wrapper that logs deadlines,
// reads, writes and close, and a scriptable net.Listener (accept results, temporary / permanent errors,
// callbacks at Accept time).
package rec

import (
	"errors"
	"io"
	"net"
	"os"
	"sync"
	"time"
)

type half struct {
	mu       sync.Mutex
	cond     *sync.Cond
	buf      []byte
	closed   bool // writer side closed: reader sees EOF after draining
	rclosed  bool // reader side closed: writer sees ErrClosedPipe
	deadline time.Time
	timer    *time.Timer
}

func newHalf() *half {
	h := &half{}
	h.cond = sync.NewCond(&h.mu)
	return h
}

type timeoutErr struct{}

func (timeoutErr) Error() string   { return "i/o timeout" }
func (timeoutErr) Timeout() bool   { return true }
func (timeoutErr) Temporary() bool { return true }
func (timeoutErr) Unwrap() error   { return os.ErrDeadlineExceeded }

func (h *half) setDeadline(t time.Time) {
	h.mu.Lock()
	defer h.mu.Unlock()
	h.deadline = t
	if h.timer != nil {
		h.timer.Stop()
		h.timer = nil
	}
	if !t.IsZero() {
		d := time.Until(t)
		if d < 0 {
			d = 0
		}
		h.timer = time.AfterFunc(d, func() {
			h.mu.Lock()
			h.cond.Broadcast()
			h.mu.Unlock()
		})
	}
	h.cond.Broadcast()
}

func (h *half) read(p []byte) (int, error) {
	h.mu.Lock()
	defer h.mu.Unlock()
	for {
		if h.rclosed {
			return 0, io.ErrClosedPipe
		}
		if len(h.buf) > 0 {
			n := copy(p, h.buf)
			h.buf = h.buf[n:]
			return n, nil
		}
		if h.closed {
			return 0, io.EOF
		}
		if !h.deadline.IsZero() && !time.Now().Before(h.deadline) {
			return 0, timeoutErr{}
		}
		h.cond.Wait()
	}
}

func (h *half) write(p []byte) (int, error) {
	h.mu.Lock()
	defer h.mu.Unlock()
	if h.closed || h.rclosed {
		return 0, io.ErrClosedPipe
	}
	h.buf = append(h.buf, p...)
	h.cond.Broadcast()
	return len(p), nil
}

// MemConn is one end of a buffered in-memory duplex connection (writes never block)
type MemConn struct {
	in, out *half
	wmu     sync.Mutex
	wdl     time.Time
	name    string
	once    sync.Once
}

// Pipe returns the two ends of a buffered connection
func Pipe() (*MemConn, *MemConn) {
	a, b := newHalf(), newHalf()
	return &MemConn{in: a, out: b, name: "server"}, &MemConn{in: b, out: a, name: "client"}
}

func (c *MemConn) Read(p []byte) (int, error) { return c.in.read(p) }

func (c *MemConn) Write(p []byte) (int, error) {
	c.wmu.Lock()
	dl := c.wdl
	c.wmu.Unlock()
	if !dl.IsZero() && !time.Now().Before(dl) {
		return 0, timeoutErr{}
	}
	return c.out.write(p)
}

func (c *MemConn) Close() error {
	c.once.Do(func() {
		c.out.mu.Lock()
		c.out.closed = true
		c.out.cond.Broadcast()
		c.out.mu.Unlock()
		c.in.mu.Lock()
		c.in.rclosed = true
		c.in.cond.Broadcast()
		c.in.mu.Unlock()
	})
	return nil
}

type memAddr string

func (a memAddr) Network() string { return "mem" }
func (a memAddr) String() string  { return string(a) }

func (c *MemConn) LocalAddr() net.Addr  { return memAddr(c.name) }
func (c *MemConn) RemoteAddr() net.Addr { return memAddr("peer-of-" + c.name) }

func (c *MemConn) SetDeadline(t time.Time) error {
	_ = c.SetReadDeadline(t)
	return c.SetWriteDeadline(t)
}
func (c *MemConn) SetReadDeadline(t time.Time) error { c.in.setDeadline(t); return nil }
func (c *MemConn) SetWriteDeadline(t time.Time) error {
	c.wmu.Lock()
	c.wdl = t
	c.wmu.Unlock()
	return nil
}

var ErrInjected = errors.New("injected failure")
