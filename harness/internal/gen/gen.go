// Package gen is the type-directed generator of Go values for every struct type of the kmip package:
// mostly well-formed values built from the repo's own types and its own dispatch methods, with
// boundary primitives, plus (when WF is false) ill-typed dynamic values.  Every choice derives from
// one PRNG so that a run replays exactly from VERIF_SEED.
package gen

import (
	"math"
	"math/rand"
	"reflect"
	"strings"
	"sync"
	"time"

	kmip "github.com/smira/go-kmip"

	"kvharness/internal/gentab"
	"kvharness/internal/render"
)

var (
	tEnum     = reflect.TypeOf(kmip.Enum(0))
	tInt32    = reflect.TypeOf(int32(0))
	tInt64    = reflect.TypeOf(int64(0))
	tBool     = reflect.TypeOf(false)
	tBytes    = reflect.TypeOf([]byte(nil))
	tString   = reflect.TypeOf("")
	tTime     = reflect.TypeOf(time.Time{})
	tDuration = reflect.TypeOf(time.Duration(0))
	tDispatch = reflect.TypeOf((*kmip.DynamicDispatch)(nil)).Elem()
)

type G struct {
	R     *rand.Rand
	WF    bool // generate only well-formed values (C01's domain)
	Big   bool // allow long strings / sequences
	Stats map[string]int
	// JunkDyn: probability (0..1) that a dynamic position gets an ill-typed value (only when !WF)
	JunkDyn float64
}

func New(seed int64) *G {
	return &G{R: rand.New(rand.NewSource(seed)), WF: true, Stats: map[string]int{}}
}

func (g *G) hit(k string) { g.Stats[k]++ }

var (
	enumPool []uint64
	strPool  []string
	byPrefix = map[string][]uint64{}
)

func init() {
	for _, c := range gentab.Consts {
		switch c.Typ {
		case "Enum":
			enumPool = append(enumPool, c.Num)
			if i := strings.Index(c.Name, "_"); i > 0 {
				byPrefix[c.Name[:i]] = append(byPrefix[c.Name[:i]], c.Num)
			}
		case "string":
			strPool = append(strPool, c.Str)
		}
	}
}

// StructTypes returns the annotated struct types of the package, by name
func StructTypes() map[string]reflect.Type {
	m := map[string]reflect.Type{}
	for _, t := range gentab.Types {
		rt := reflect.TypeOf(t.Val)
		if len(render.Fields(rt)) > 0 {
			m[t.Name] = rt
		}
	}
	return m
}

func (g *G) length() int {
	r := g.R.Intn(100)
	switch {
	case r < 55:
		return g.R.Intn(18) // 0..17, around the 8-byte padding boundary
	case r < 70:
		return 0
	case r < 85:
		return 1 + g.R.Intn(40)
	case r < 93:
		return 255 + g.R.Intn(3)
	default:
		if g.Big {
			return []int{4095, 4096, 4097, 8191, 8192, 8193, 12289}[g.R.Intn(7)]
		}
		return 60 + g.R.Intn(8)
	}
}

func (g *G) bytes() []byte {
	n := g.length()
	if n == 0 {
		if g.R.Intn(2) == 0 {
			return nil
		}
		return []byte{}
	}
	b := make([]byte, n)
	switch g.R.Intn(4) {
	case 0:
		for i := range b {
			b[i] = byte(g.R.Intn(256))
		}
	case 1: // zero bytes inside strings: padding look-alikes
	case 2:
		for i := range b {
			b[i] = 0xff
		}
	default:
		for i := range b {
			b[i] = byte('a' + g.R.Intn(26))
		}
	}
	return b
}

func (g *G) i64(bits uint) int64 {
	min, max := int64(math.MinInt64), int64(math.MaxInt64)
	if bits == 32 {
		min, max = math.MinInt32, math.MaxInt32
	}
	switch g.R.Intn(10) {
	case 0:
		return 0
	case 1:
		return 1
	case 2:
		return -1
	case 3:
		return min
	case 4:
		return max
	case 5:
		return int64(g.R.Intn(256))
	case 6:
		return min + 1
	default:
		if bits == 32 {
			return int64(int32(g.R.Uint32()))
		}
		return int64(g.R.Uint64())
	}
}

func (g *G) enum() uint64 {
	switch g.R.Intn(8) {
	case 0:
		return 0
	case 1:
		return 0xffffffff
	case 2:
		return 0x80000000
	case 3:
		return uint64(g.R.Uint32())
	default:
		return enumPool[g.R.Intn(len(enumPool))]
	}
}

func (g *G) time() time.Time {
	switch g.R.Intn(9) {
	case 0:
		return time.Time{}
	case 1:
		return time.Unix(0, 0)
	case 2:
		return time.Unix(-1, 0)
	case 3:
		return time.Unix(1<<40, 0)
	case 4:
		return time.Unix(-62135596800, 0) // the zero time, spelled as a Unix time
	case 5:
		return time.Unix(math.MaxInt64, 0)
	case 6:
		return time.Unix(math.MinInt64, 0)
	case 7:
		return time.Unix(int64(g.R.Uint64()), 0)
	default:
		return time.Unix(int64(g.R.Intn(2000000000)), 0).UTC()
	}
}

func (g *G) duration() time.Duration {
	if !g.WF && g.R.Intn(4) == 0 {
		// outside KMIP's interval range: negative, fractional, beyond 2^32 seconds
		switch g.R.Intn(6) {
		case 4:
			// long intervals one nanosecond short of a whole second: whatever computes the seconds must truncate exactly
			// (a float64 cannot hold 2^24 s + 999999999 ns)
			return []time.Duration{(1<<24)*time.Second + 999999999, 365*24*time.Hour - 1, (1<<31)*time.Second + 999999999, (1<<32-1)*time.Second + 999999999,
				(1<<24+12345)*time.Second + 999999800}[g.R.Intn(5)]
		case 5:
			return time.Duration(1<<24+g.R.Int63n(1<<31))*time.Second + 999999000 + time.Duration(g.R.Intn(1000))
		case 0:
			return -time.Second * time.Duration(1+g.R.Intn(100))
		case 1:
			return time.Duration(g.R.Int63())
		case 2:
			return time.Duration(math.MinInt64)
		default:
			return 1500 * time.Millisecond
		}
	}
	switch g.R.Intn(6) {
	case 0:
		return 0
	case 1:
		return time.Second
	case 2:
		return time.Duration(math.MaxUint32) * time.Second
	case 3:
		return time.Duration(math.MaxUint32-1) * time.Second
	default:
		return time.Duration(g.R.Int63n(1<<32)) * time.Second
	}
}

func (g *G) seqLen(required bool) int {
	r := g.R.Intn(100)
	n := 0
	switch {
	case r < 30:
		n = 0
	case r < 60:
		n = 1
	case r < 85:
		n = 2
	case r < 97:
		n = 3 + g.R.Intn(3)
	default:
		n = 12
		if g.Big {
			n = 40
		}
	}
	if required && g.WF && n == 0 {
		n = 1
	}
	return n
}

// Prim fills a primitive; returns false if t is not primitive
func (g *G) Prim(v reflect.Value) bool {
	switch v.Type() {
	case tInt32:
		v.SetInt(g.i64(32))
	case tInt64:
		v.SetInt(g.i64(64))
	case tEnum:
		v.SetUint(g.enum())
	case tBool:
		v.SetBool(g.R.Intn(2) == 0)
	case tBytes:
		v.SetBytes(g.bytes())
	case tString:
		v.SetString(string(g.bytes()))
	case tTime:
		v.Set(reflect.ValueOf(g.time()))
	case tDuration:
		v.SetInt(int64(g.duration()))
	default:
		return false
	}
	return true
}

type selChoice struct {
	field int // struct field index
	enum  bool
	nums  []uint64
	strs  []string
}

var selCache = map[reflect.Type]map[string]*selChoice{}
var selMu sync.Mutex

// selectors finds, by calling the real BuildFieldValue, which preceding field selects the type of
// dynamic field `name` and which of its values dispatch successfully
func selectors(t reflect.Type, name string) *selChoice {
	selMu.Lock()
	defer selMu.Unlock()
	if m, ok := selCache[t]; ok {
		if c, ok := m[name]; ok {
			return c
		}
	} else {
		selCache[t] = map[string]*selChoice{}
	}
	var best *selChoice
	if reflect.PtrTo(t).Implements(tDispatch) {
		for _, f := range render.Fields(t) {
			if f.Name == name {
				break
			}
			c := &selChoice{field: f.Index}
			try := func(set func(reflect.Value)) bool {
				p := reflect.New(t)
				set(p.Elem().Field(f.Index))
				ok := false
				func() {
					defer func() { _ = recover() }()
					r, err := p.Interface().(kmip.DynamicDispatch).BuildFieldValue(name)
					ok = err == nil && r != nil
				}()
				return ok
			}
			switch f.Type {
			case tEnum:
				c.enum = true
				seen := map[uint64]bool{}
				for _, n := range enumPool {
					n := n
					if !seen[n] && try(func(v reflect.Value) { v.SetUint(n) }) {
						c.nums = append(c.nums, n)
					}
					seen[n] = true
				}
			case tString:
				for _, s := range strPool {
					s := s
					if try(func(v reflect.Value) { v.SetString(s) }) {
						c.strs = append(c.strs, s)
					}
				}
			}
			if len(c.nums)+len(c.strs) > 0 && (best == nil || len(c.nums)+len(c.strs) > len(best.nums)+len(best.strs)) {
				best = c
			}
		}
	}
	selCache[t][name] = best
	return best
}

// Struct fills the struct value v (addressable) field by field
func (g *G) Struct(v reflect.Value, depth int) {
	t := v.Type()
	fields := render.Fields(t)
	// choose dispatchable selector values first (most of the time)
	chosen := map[int]bool{}
	for _, f := range fields {
		if f.Type.Kind() == reflect.Interface && !f.Skip {
			// a required dynamic field of a well-formed value must be dispatchable
			if c := selectors(t, f.Name); c != nil && ((g.WF && f.Required) || g.R.Intn(100) < 88) {
				if c.enum {
					v.Field(c.field).SetUint(c.nums[g.R.Intn(len(c.nums))])
				} else {
					v.Field(c.field).SetString(c.strs[g.R.Intn(len(c.strs))])
				}
				chosen[c.field] = true
				g.hit("selector:dispatchable")
			} else if c != nil {
				g.hit("selector:random")
			}
		}
	}
	for _, f := range fields {
		fv := v.Field(f.Index)
		if chosen[f.Index] {
			continue
		}
		// optional fields are left zero fairly often so that all presence patterns occur
		if !f.Required && g.R.Intn(100) < 35 {
			g.hit("field:left-zero")
			continue
		}
		switch {
		case f.Skip:
			// a field annotated skip may hold anything: it takes no part in encoding (and comes back nil)
			if g.R.Intn(3) == 0 && fv.Kind() == reflect.Interface {
				fv.Set(reflect.ValueOf("vendor"))
				g.hit("skip:nonnil")
			}
		case fv.Kind() == reflect.Interface:
			g.dynamic(v, f, fv, depth)
		case fv.Kind() == reflect.Slice && fv.Type() != tBytes:
			n := g.seqLen(f.Required)
			if depth > 6 && n > 1 {
				n = 1
			}
			if n == 0 {
				if g.R.Intn(2) == 0 {
					fv.Set(reflect.MakeSlice(fv.Type(), 0, 0))
				}
				continue
			}
			s := reflect.MakeSlice(fv.Type(), n, n)
			for i := 0; i < n; i++ {
				g.Value(s.Index(i), depth+1)
			}
			fv.Set(s)
		default:
			g.Value(fv, depth+1)
		}
	}
}

// Value fills any supported value
func (g *G) Value(v reflect.Value, depth int) {
	if g.Prim(v) {
		g.hit("prim:" + render.PrimName(v.Type()))
		return
	}
	if v.Kind() == reflect.Struct {
		g.hit("struct:" + v.Type().Name())
		g.Struct(v, depth)
	}
}

var junk = []func() interface{}{
	func() interface{} { return 42 },
	func() interface{} { return map[string]int{"a": 1} },
	func() interface{} { return []int{1, 2} },
	func() interface{} { return (*kmip.GetRequest)(nil) },
	func() interface{} { p := &kmip.GetRequest{}; return &p },
	func() interface{} { return func() {} },
	func() interface{} { return uint8(7) },
	func() interface{} { return 3.5 },
}

func (g *G) dynamic(parent reflect.Value, f render.AnnField, fv reflect.Value, depth int) {
	if !g.WF && g.R.Float64() < g.JunkDyn {
		fv.Set(reflect.ValueOf(junk[g.R.Intn(len(junk))]()))
		g.hit("dyn:junk")
		return
	}
	var built interface{}
	var err error
	if parent.CanAddr() {
		if dd, ok := parent.Addr().Interface().(kmip.DynamicDispatch); ok {
			func() {
				defer func() {
					if recover() != nil {
						err = errPanic
					}
				}()
				built, err = dd.BuildFieldValue(f.Name)
			}()
		} else {
			err = errPanic
		}
	} else {
		err = errPanic
	}
	if err != nil || built == nil {
		// not dispatchable: a well-formed value leaves the field nil
		if !g.WF && g.R.Intn(3) == 0 {
			// a payload whose type the selector does not announce (what a handler might return)
			all := StructTypes()
			names := make([]string, 0, len(all))
			for n := range all {
				names = append(names, n)
			}
			sortStrings(names)
			p := reflect.New(all[names[g.R.Intn(len(names))]])
			g.Struct(p.Elem(), depth+1)
			fv.Set(p.Elem())
			g.hit("dyn:undispatched-struct")
			return
		}
		g.hit("dyn:nil")
		return
	}
	bv := reflect.ValueOf(built)
	if bv.Kind() == reflect.Ptr {
		p := reflect.New(bv.Type().Elem())
		g.Value(p.Elem(), depth+1)
		if g.R.Intn(2) == 0 {
			fv.Set(p) // pointer payload
			g.hit("dyn:ptr")
		} else {
			fv.Set(p.Elem()) // value payload
			g.hit("dyn:val")
		}
		return
	}
	p := reflect.New(bv.Type())
	g.Value(p.Elem(), depth+1)
	fv.Set(p.Elem())
	g.hit("dyn:prim")
}

type strErr string

func (e strErr) Error() string { return string(e) }

var errPanic error = strErr("panic")

func sortStrings(a []string) {
	for i := 1; i < len(a); i++ {
		for j := i; j > 0 && a[j] < a[j-1]; j-- {
			a[j], a[j-1] = a[j-1], a[j]
		}
	}
}

// New returns a pointer to a freshly generated value of struct type t
func (g *G) NewStruct(t reflect.Type) reflect.Value {
	p := reflect.New(t)
	g.Struct(p.Elem(), 0)
	return p
}
