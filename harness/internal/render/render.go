// Package render turns Go values of the kmip package (and of the harness's test types) into the
// line-protocol tokens the Lean driver parses (see lean/Driver/Parse.lean).  It is part of the tie
// between model and code and therefore deliberately independent of fields.go.
package render

import (
	"encoding/hex"
	"fmt"
	"reflect"
	"strings"
	"time"

	kmip "github.com/smira/go-kmip"
)

var (
	tTag      = reflect.TypeOf(kmip.Tag(0))
	tEnum     = reflect.TypeOf(kmip.Enum(0))
	tInt32    = reflect.TypeOf(int32(0))
	tInt64    = reflect.TypeOf(int64(0))
	tBool     = reflect.TypeOf(false)
	tBytes    = reflect.TypeOf([]byte(nil))
	tString   = reflect.TypeOf("")
	tTime     = reflect.TypeOf(time.Time{})
	tDuration = reflect.TypeOf(time.Duration(0))
)

func hx(b []byte) string {
	if len(b) == 0 {
		return "-"
	}
	return hex.EncodeToString(b)
}

// PrimName is the protocol name of a primitive Go type ("" if not primitive)
func PrimName(t reflect.Type) string {
	switch t {
	case tInt32:
		return "int"
	case tInt64:
		return "long"
	case tEnum:
		return "enum"
	case tBool:
		return "bool"
	case tBytes:
		return "bytes"
	case tString:
		return "text"
	case tTime:
		return "time"
	case tDuration:
		return "interval"
	}
	return ""
}

type AnnField struct {
	Index    int
	Name     string
	TagName  string
	Required bool
	Skip     bool
	Type     reflect.Type
}

// Fields lists the annotated, exported, non-Tag fields of a struct type in declaration order
func Fields(t reflect.Type) []AnnField {
	var out []AnnField
	for i := 0; i < t.NumField(); i++ {
		f := t.Field(i)
		ann := f.Tag.Get("kmip")
		parts := strings.SplitN(ann, ",", 2)
		if f.Type == tTag || parts[0] == "" || f.PkgPath != "" {
			continue
		}
		opt := ""
		if len(parts) > 1 {
			opt = parts[1]
		}
		out = append(out, AnnField{i, f.Name, parts[0], strings.Contains(opt, "required"), strings.Contains(opt, "skip"), f.Type})
	}
	return out
}

func prim(b *strings.Builder, rv reflect.Value) bool {
	switch rv.Type() {
	case tInt32:
		fmt.Fprintf(b, "i %d", uint32(int32(rv.Int())))
	case tInt64:
		fmt.Fprintf(b, "l %d", uint64(rv.Int()))
	case tEnum:
		fmt.Fprintf(b, "e %d", uint32(rv.Uint()))
	case tBool:
		if rv.Bool() {
			b.WriteString("b1")
		} else {
			b.WriteString("b0")
		}
	case tBytes:
		fmt.Fprintf(b, "y %s", hx(rv.Bytes()))
	case tString:
		fmt.Fprintf(b, "s %s", hx([]byte(rv.String())))
	case tTime:
		fmt.Fprintf(b, "t %d", uint64(rv.Interface().(time.Time).Unix()))
	case tDuration:
		fmt.Fprintf(b, "d %d", rv.Int())
	default:
		return false
	}
	return true
}

// Val renders a concrete (non-interface) value
func Val(b *strings.Builder, rv reflect.Value) {
	if prim(b, rv) {
		return
	}
	if rv.Kind() != reflect.Struct {
		b.WriteString("?" + rv.Kind().String())
		return
	}
	b.WriteString("( ")
	for _, f := range Fields(rv.Type()) {
		fv := rv.Field(f.Index)
		switch {
		case f.Skip:
			if fv.IsZero() {
				b.WriteString("k0")
			} else {
				b.WriteString("k1")
			}
		case fv.Kind() == reflect.Slice && fv.Type() != tBytes:
			b.WriteString("[ ")
			for i := 0; i < fv.Len(); i++ {
				Val(b, fv.Index(i))
				b.WriteString(" ")
			}
			b.WriteString("]")
		case fv.Kind() == reflect.Interface:
			Dyn(b, fv)
		default:
			b.WriteString("o ")
			Val(b, fv)
		}
		b.WriteString(" ")
	}
	b.WriteString(")")
}

// Dyn renders what an interface holds (rv is the interface-kinded value, or any value wrapped by DynOf)
func Dyn(b *strings.Builder, rv reflect.Value) {
	if rv.Kind() == reflect.Interface {
		if rv.IsNil() {
			b.WriteString("n")
			return
		}
		rv = rv.Elem()
	}
	ptr := false
	if rv.Kind() == reflect.Ptr {
		if rv.IsNil() {
			b.WriteString("x typednil")
			return
		}
		ptr = true
		rv = rv.Elem()
	}
	name := PrimName(rv.Type())
	if name == "" {
		switch rv.Kind() {
		case reflect.Struct:
			name = rv.Type().Name()
		case reflect.Ptr:
			b.WriteString("x ptrptr")
			return
		case reflect.Map:
			b.WriteString("x map")
			return
		case reflect.Slice, reflect.Array:
			b.WriteString("x slice")
			return
		case reflect.Func, reflect.Chan:
			b.WriteString("x func")
			return
		default:
			b.WriteString("x scalar")
			return
		}
	}
	if ptr {
		b.WriteString("p ")
	} else {
		b.WriteString("v ")
	}
	b.WriteString(name + " ")
	Val(b, rv)
}

// Top renders the argument of Encode / the result of Decode as a DynV
func Top(v interface{}) string {
	var b strings.Builder
	if v == nil {
		return "n"
	}
	Dyn(&b, reflect.ValueOf(v))
	return b.String()
}

// Struct renders a struct value (or pointer to one) as a bare Val
func Struct(v interface{}) string {
	var b strings.Builder
	rv := reflect.ValueOf(v)
	if rv.Kind() == reflect.Ptr {
		rv = rv.Elem()
	}
	Val(&b, rv)
	return b.String()
}
