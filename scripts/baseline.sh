#!/bin/bash
# Runs /repo's pinned test suite (guard OFF) and checks that the 36 stable tests of /root/.vp/BASELINE.json pass.
# usage: baseline.sh [repo-dir]
export GOFLAGS=-mod=mod GOPROXY=off GOSUMDB=off GOTOOLCHAIN=local
REPO=${1:-/repo}
cd "$REPO" || exit 2
out=$(go test -json -vet=off -count=1 -timeout 25m ./... 2>/dev/null)
python3 - "$out" <<'PY'
import json,sys
want=json.load(open('/root/.vp/BASELINE.json'))['stable_pass'] if __import__('os').path.exists('/root/.vp/BASELINE.json') else []
res={}
for line in sys.argv[1].splitlines():
    try: e=json.loads(line)
    except Exception: continue
    if e.get('Test') and e.get('Action') in('pass','fail','skip'):
        res[e['Package']+'::'+e['Test']]=e['Action']
bad=[t for t in want if res.get(t)!='pass']
npass=sum(1 for v in res.values() if v=='pass')
print(f"baseline: {npass} tests passed, {len(want)-len(bad)}/{len(want)} of the stable set")
for t in bad: print("NOT PASSING:",t,res.get(t))
sys.exit(1 if bad or not want else 0)
PY
