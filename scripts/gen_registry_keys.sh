#!/bin/bash
# regenerates lean/KmipProofs/RegistryKeys.lean and SpecKeys.lean from KmipModel/{Registry,SpecStructs,Expect}.lean
# (run after editing any of them; the certification theorems inside the generated files re-check the literals)
set -e
cd /verif/lean && lake build KmipModel.Expect
lake env lean --run /verif/scripts/genkeys.lean > KmipProofs/RegistryKeys.lean.new && mv KmipProofs/RegistryKeys.lean.new KmipProofs/RegistryKeys.lean
lake env lean --run /verif/scripts/genkeys.lean spec > KmipProofs/SpecKeys.lean.new && mv KmipProofs/SpecKeys.lean.new KmipProofs/SpecKeys.lean
