#!/bin/bash
# regenerates lean/KmipProofs/RegistryKeys.lean from KmipModel/Registry.lean + Expect.lean (run after editing either)
cd /verif/lean && lake build KmipModel.Expect && lake env lean --run /verif/scripts/genkeys.lean > KmipProofs/RegistryKeys.lean
