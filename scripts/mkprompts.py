#!/usr/bin/env python3
"""Writes one prompt per property for a batch of seeded-change sub-agents: mkprompts.py <batch-dir under /tmp>.
A sub-agent gets the property's text, a scratch worktree of /repo under the batch directory, and the list of what earlier
changes for that property needed to manifest (so that it produces something new) - nothing from /verif."""
import json, glob, os, sys
batch = sys.argv[1]
assert batch.startswith('/tmp/')
os.makedirs(batch + '/prompts', exist_ok=True)
TEMPLATE = '''You are helping to evaluate a verification tool. Your job: introduce ONE realistic defect into a Go library so that a stated behavioural property no longer holds, while the library still compiles and its existing test suite still passes.

The library is smira/go-kmip (KMIP 1.4 TTLV encode/decode via reflection over tagged structs, plus a TLS client and a batch-processing server). Your own scratch copy (a git worktree) is at: WORKTREE
Work ONLY inside that directory. Do not read or write anything under /verif or /repo. Read the library's source in your worktree to understand it.

The property your change must break:

PROPERTYTEXT

Requirements for the change:
1. It must be a plausible change a maintainer could make by mistake or as a "harmless" refactor/optimisation (not sabotage that ordinary use would expose at once). It should need something SPECIFIC to manifest: a particular interleaving, a fault at a particular point, a multi-step sequence of operations, an unusual input (boundary length, rare field combination, particular operation code), or two cooperating sites that each look fine alone.
2. The library must still compile and the EXISTING tests must still pass. Run them with:
   cd WORKTREE && GOFLAGS=-mod=mod GOPROXY=off GOSUMDB=off GOTOOLCHAIN=local go test -vet=off -count=1 ./...
   NOTE: on the unmodified tree exactly one test already fails (TestServerSuite/TestConnectTLSNoCA, an error-message string comparison that depends on the Go version, and therefore TestServerSuite as a whole is reported FAIL). That is expected; every OTHER test that passes before your change must still pass after it. There is no network; do not try to download anything.
3. Provide a demonstration: a new file WORKTREE/mutant_demo_test.go (package kmip, using only the standard library, the package itself, and github.com/stretchr/testify which is already a dependency) containing a test named TestMutantDemo that FAILS with your change applied and PASSES on the unmodified library. Verify both: run it with your change; then temporarily revert ONLY the library change (see point 5; keep the demo file), run it again to see it pass, and restore your change.
4. Leave your library change UNCOMMITTED in the worktree (so that `git -C WORKTREE diff` shows exactly the change; the new demo test file may be untracked). Do not modify existing test files.
5. Do NOT use `git stash` (the stash is shared with other worktrees of the same repository and other people are working in those): to revert temporarily use `git diff > BATCH/ID.patch; git apply -R BATCH/ID.patch; ...; git apply BATCH/ID.patch`.
6. Novelty: other people have already produced defects for this property; yours must be DIFFERENT in mechanism and trigger from all of these (do not re-do them, do not do a close variant, and avoid altogether the families 'pooled/cached object not reset', 'custom limited reader', 'uint32 length wrap-around', 'off-by-one in a lookup table', 'behaviour that changes only above a size threshold', 'leaving a loop early once a structure's declared length is used up', and 'a flag or variable that is not reset between loop iterations'):
DONE
   Re-read the property statement clause by clause and pick a clause, a quantifier value or a configuration none of the above touches; consider rarely used fields and options, unusual but legal API usage orders, boundary values, error paths, and interactions between two features that each work alone. Prefer a change that keeps ALL of the library's own round trips and client/server self-interoperation working, and that a code reviewer would wave through. A small change (a few lines) is better than a large refactor.
7. Write WORKTREE/MUTANT.md: which files/lines you changed, why it breaks the property, and exactly what is needed for the breakage to manifest (the trigger).

Reply with: a one-paragraph description of the change, the trigger needed, and the outputs of the two demo runs (failing with the change, passing without).
'''
done = {}
for f in sorted(glob.glob('/verif/seeded/*/meta.json')):
    m = json.load(open(f))
    done.setdefault(m['breaks_property'], []).append(m['needs_to_manifest'])
for l in open('/verif/properties.jsonl'):
    p = json.loads(l); pid = p['id']
    prop = f"""PROPERTY {pid}: {p['title']}

STATEMENT: {p['statement']}

QUANTIFIED OVER: {p['quantifier']['text']}

WHY THE EXISTING TESTS CANNOT SETTLE IT: {p['why_tests_cant']}"""
    dl = "\n".join(f"   - {x}" for x in done.get(pid, []))
    t = TEMPLATE.replace('WORKTREE', f'{batch}/{pid}').replace('PROPERTYTEXT', prop).replace('BATCH', batch).replace('ID.patch', f'{pid}.patch').replace('DONE', dl)
    open(f'{batch}/prompts/{pid}.prompt', 'w').write(t)
print("prompts in", batch + '/prompts')
