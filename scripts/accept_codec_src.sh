#!/bin/bash
# Re-baselines the codec source tie: takes the digests kvscan generated from /repo's CURRENT source as the expected ones.
# Only for a deliberate, reviewed change of /repo (a "fix:" commit, or a refactor after the model was re-validated by the
# thorough correspondence runs). Never run by a check.
set -e
cd /verif
G=lean/KmipGen/CodecSrc.lean
[ -f $G ] || { echo "run ./check first (no generated $G)"; exit 1; }
{
  echo "-- Expected digests of the normalised source of every codec function and of the codec files' declarations: the text the"
  echo "-- hand-written models (KmipModel/Encode.lean, Decode.lean, Schema.lean, Alloc.lean, Stream.lean) were validated against by the"
  echo "-- correspondence runs. Written by scripts/accept_codec_src.sh from /repo at $(git -C /repo rev-parse --short HEAD); the readable"
  echo "-- normalised text is KmipModel/ExpectCodecSrc.txt. GenC01..GenC06, GenC13, GenC18, GenC19 prove the regenerated digests equal these."
  sed -e 's/^-- GENERATED.*$//' -e 's/^-- (function.*$//' -e 's/namespace KmipGen/namespace Kmip.ExpectCodec/' -e 's/end KmipGen/end Kmip.ExpectCodec/' $G
} > lean/KmipModel/ExpectCodec.lean
cp lean/KmipGen/CodecSrc.txt lean/KmipModel/ExpectCodecSrc.txt
echo accepted
