#!/bin/bash
# usage: try_mutant.sh <worktree-dir> <seeded-id> <prop> [more props...]
# confirms the mutant (compiles, baseline passes, demo fails with / passes without), stores it under /verif/seeded/<id>/,
# applies it to /repo, runs the given checks, and restores /repo.
set -u
WT=$1; ID=$2; shift 2
export GOFLAGS=-mod=mod GOPROXY=off GOSUMDB=off GOTOOLCHAIN=local
OUT=/verif/seeded/$ID; mkdir -p $OUT
git -C $WT diff > $OUT/patch.diff
cp $WT/mutant_demo_test.go $OUT/mutant_demo_test.go 2>/dev/null
cp $WT/MUTANT.md $OUT/MUTANT.md 2>/dev/null
[ -s $OUT/patch.diff ] || { echo "EMPTY PATCH"; exit 2; }
# confirm in a fresh scratch copy
SCR=$(mktemp -d /tmp/confirm.XXXX); git -C /repo worktree add -f --detach $SCR HEAD >/dev/null 2>&1
cp $OUT/mutant_demo_test.go $SCR/
( cd $SCR && go test -vet=off -count=1 -run 'TestMutantDemo$' . >/tmp/demo_clean.txt 2>&1 ); CLEAN=$?
git -C $SCR apply $OUT/patch.diff || { echo "PATCH DOES NOT APPLY"; git -C /repo worktree remove --force $SCR; exit 2; }
( cd $SCR && go build ./... ) || { echo "DOES NOT COMPILE"; git -C /repo worktree remove --force $SCR; exit 2; }
( cd $SCR && go test -vet=off -count=1 -run 'TestMutantDemo$' . >/tmp/demo_mut.txt 2>&1 ); MUT=$?
rm $SCR/mutant_demo_test.go
BASE=$(/verif/scripts/baseline.sh $SCR | head -1)
git -C /repo worktree remove --force $SCR
echo "demo on clean tree: exit $CLEAN (want 0); demo with mutant: exit $MUT (want !=0); $BASE"
# run checks against /repo with the patch applied
git -C /repo apply $OUT/patch.diff
RES=""
for P in "$@"; do
  O=$(cd /verif && timeout 1500 ./check $P --tier quick 2>&1 | grep -E 'VIOLATION|^\[check' | tr '\n' ' ')
  echo "  $P: $O"
  V=$(echo "$O" | grep -c VIOLATION)
  if echo "$O" | grep -q no-failing-input-found; then V="tie"; fi
  RES="$RES $P=$V"
done
git -C /repo checkout -- . ; git -C /repo status --short | grep -v '^??' | head -3
echo "RESULT $ID demo_clean=$CLEAN demo_mut=$MUT $RES" | tee $OUT/result.txt
