import KmipModel.Expect
open Kmip Kmip.Expect

def groups : List (String × String × String × List (String × Nat)) := [
  ("tags", "", "strip Registry.tags", strip Registry.tags),
  ("itemTypes", "", "Registry.itemTypes", Registry.itemTypes),
  ("operations", "OPERATION_", "strip Registry.operations", strip Registry.operations),
  ("resultStatus", "RESULT_STATUS_", "Registry.resultStatus", Registry.resultStatus),
  ("resultReason", "RESULT_REASON_", "strip Registry.resultReason", strip Registry.resultReason),
  ("credentialType", "CREDENTIAL_TYPE_", "strip Registry.credentialType", strip Registry.credentialType),
  ("objectType", "OBJECT_TYPE_", "Registry.objectType", Registry.objectType),
  ("state", "STATE_", "Registry.state", Registry.state),
  ("keyFormatType", "KEY_FORMAT_", "Registry.keyFormatType", Registry.keyFormatType),
  ("keyWrapType", "KEY_WRAP_", "Registry.keyWrapType", Registry.keyWrapType),
  ("wrappingMethod", "WRAPPING_METHOD_", "Registry.wrappingMethod", Registry.wrappingMethod),
  ("keyCompressionType", "KEY_COMPRESSION_", "Registry.keyCompressionType", Registry.keyCompressionType),
  ("nameType", "NAME_TYPE_", "Registry.nameType", Registry.nameType),
  ("cryptographicAlgorithm", "CRYPTO_", "Registry.cryptographicAlgorithm", Registry.cryptographicAlgorithm),
  ("paddingMethod", "PADDING_METHOD_", "Registry.paddingMethod", Registry.paddingMethod),
  ("hashingAlgorithm", "HASH_", "Registry.hashingAlgorithm", Registry.hashingAlgorithm),
  ("revocationReasonCode", "REVOCATION_REASON_", "Registry.revocationReasonCode", Registry.revocationReasonCode),
  ("blockCipherMode", "BLOCK_MODE_", "Registry.blockCipherMode", Registry.blockCipherMode)
]

def render (l : List (Nat × Nat)) : String :=
  "[\n" ++ ",\n".intercalate (l.map fun (k, x) => s!"  ({k}, {x})") ++ "\n]"

def render4 (l : List (Nat × Nat × Nat × Nat)) : String :=
  "[\n" ++ ",\n".intercalate (l.map fun (a, b, c, d) => s!"  ({a}, {b}, {c}, {d})") ++ "\n]"

def specMain : IO Unit := do
  IO.println "import KmipModel.Expect
/-
  SpecStructs.fields with names as numbers and tag names resolved through the registry; literal table certified
  by `decide +kernel` (slow kernel string processing, cached: depends only on hand-written files).
  Regenerate with scripts/gen_registry_keys.sh after editing SpecStructs/Registry/Expect.
-/
namespace Kmip.SpecKeys
open Kmip Kmip.Expect
"
  IO.println s!"def fields : List (Nat × Nat × Nat × Nat) := {render4 specFieldKeys}\n"
  IO.println "theorem fields_ok : fields = specFieldKeys := by decide +kernel\n"
  IO.println s!"def knownNesting : List (Nat × Nat × Nat) := {Expect.knownNesting}\n"
  IO.println "theorem knownNesting_ok : knownNesting = Expect.knownNesting := by decide +kernel\n"
  IO.println s!"def offWire : List (Nat × Nat) := {Expect.offWire.map fun (a, b) => (keyOf a, keyOf b)}\n"
  IO.println "theorem offWire_ok : offWire = Expect.offWire.map (fun (a, b) => (keyOf a, keyOf b)) := by decide +kernel\n"
  IO.println "end Kmip.SpecKeys"

def registryMain : IO Unit := do

  IO.println "import KmipModel.Expect
/-
  Registry entries keyed by the NUMBER of their expected Go identifier (see Expect.keyOf): literal tables,
  each certified equal to the computation from the readable registry by `decide +kernel`.
  This module depends only on hand-written files, so its (slow: kernel string processing) build is cached;
  GenC18 then compares numbers only.  Regenerate with scripts/gen_registry_keys.sh after editing Registry/Expect.
-/
namespace Kmip.RegistryKeys
open Kmip Kmip.Expect
"
  IO.println s!"def aliasK : List (Nat × Nat) := {render Expect.aliasK}\n"
  IO.println "theorem aliasK_ok : aliasK = Expect.aliasK := by decide +kernel\n"
  IO.println s!"def batchAliasK : List Nat := {Expect.batchAliasK}\ndef anyAliasK : List Nat := {Expect.anyAliasK}\ndef dashK : Nat := {keyOf "-"}\ndef anyTagK : Nat := {keyOf "ANY_TAG"}"
  IO.println "theorem batchAliasK_ok : batchAliasK = Expect.batchAliasK := by decide +kernel
theorem anyAliasK_ok : anyAliasK = Expect.anyAliasK := by decide +kernel
theorem dashK_ok : dashK = keyOf \"-\" := by decide +kernel
theorem anyTagK_ok : anyTagK = keyOf \"ANY_TAG\" := by decide +kernel
"
  for (name, pre, expr, reg) in groups do
    IO.println s!"def {name} : List (Nat × Nat) := {render (groupKeys Expect.aliasK pre reg)}\n"
    IO.println s!"theorem {name}_ok : {name} = groupKeys aliasK \"{pre}\" ({expr}) := by decide +kernel\n"
  IO.println "end Kmip.RegistryKeys"

def main (args : List String) : IO Unit := do
  if args == ["spec"] then specMain else registryMain
