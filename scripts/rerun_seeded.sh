#!/bin/bash
# Re-runs every seeded change against the quick check of the property it targets, in isolation:
# a scratch copy of /verif and a scratch worktree of /repo (KMIP_REPO), so neither /repo nor /verif is touched.
# usage: rerun_seeded.sh [out-file]
OUT=${1:-/tmp/rerun_seeded.log}
SCR=$(mktemp -d /tmp/rrs.XXXX)
cp -r /verif $SCR/verif
git -C /repo worktree add -f --detach $SCR/repo HEAD >/dev/null 2>&1
sed -i "s#=> /repo#=> $SCR/repo#" $SCR/verif/harness/go.mod
: > $OUT
for d in /verif/seeded/*/; do
  id=$(basename $d)
  prop=$(python3 -c "import json;print(json.load(open('$d/meta.json'))['breaks_property'])")
  git -C $SCR/repo checkout -q -- . ; git -C $SCR/repo clean -fdq
  if ! git -C $SCR/repo apply $d/patch.diff 2>/dev/null; then echo "$id $prop PATCH-DOES-NOT-APPLY" >> $OUT; continue; fi
  res=$(cd $SCR/verif && KMIP_REPO=$SCR/repo timeout 1800 ./check $prop --tier quick 2>&1 | grep -E 'VIOLATION' | head -1)
  if [ -z "$res" ]; then echo "$id $prop MISSED" >> $OUT
  elif echo "$res" | grep -q no-failing-input-found; then echo "$id $prop tie-only" >> $OUT
  else echo "$id $prop caught" >> $OUT; fi
done
git -C /repo worktree remove --force $SCR/repo; rm -rf $SCR
echo DONE >> $OUT
