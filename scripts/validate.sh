#!/bin/bash
# validates MANIFEST.json and every evidence file against the schemas
python3-vt - <<'PY'
import json,jsonschema,glob
jsonschema.validate(json.load(open('/verif/MANIFEST.json')), json.load(open('/root/.vp/MANIFEST.schema.json')))
n=0
for f in sorted(glob.glob('/verif/evidence/C*.json')):
    jsonschema.validate(json.load(open(f)), json.load(open('/root/.vp/EVIDENCE.schema.json'))); n+=1
print('manifest valid;',n,'evidence files valid')
PY
