#!/bin/bash
# Runs checks on the UNCHANGED tree in isolation (scratch copy of /verif + scratch worktree of /repo HEAD), so that it can run
# while seeded changes are being tried against /repo itself.
# usage: sweep.sh <tier> <out-file> <seed> [seed...]     e.g. sweep.sh quick /tmp/sweep.log 2 3 4
TIER=$1; OUT=$2; shift 2
SCR=$(mktemp -d /tmp/swp.XXXX)
cp -r /verif $SCR/verif
git -C /repo worktree add -f --detach $SCR/repo HEAD >/dev/null 2>&1
sed -i "s#=> /repo#=> $SCR/repo#" $SCR/verif/harness/go.mod
: > $OUT
for seed in "$@"; do
  for p in C01 C02 C03 C04 C05 C06 C07 C08 C09 C10 C11 C12 C13 C14 C15 C16 C17 C18 C19 C20; do
    (cd $SCR/verif && KMIP_REPO=$SCR/repo timeout 7200 ./check $p --tier $TIER --seed $seed 2>&1 | grep -E 'VIOLATION|^\[check|KNOWN-FINDING' | cut -c1-220) >> $OUT
  done
done
git -C /repo worktree remove --force $SCR/repo; rm -rf $SCR
echo DONE >> $OUT
