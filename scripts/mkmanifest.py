#!/usr/bin/env python3
"""Regenerates MANIFEST.json from scripts/claims.json (one entry per claimed property)."""
import json, os
root = os.path.dirname(os.path.dirname(os.path.abspath(__file__)))
claims = json.load(open(os.path.join(root, "scripts", "claims.json")))
props = [json.loads(l) for l in open(os.path.join(root, "properties.jsonl"))]
checks, na = [], []
for p in props:
    pid = p["id"]
    c = claims.get(pid)
    if not c or c.get("not_applicable"):
        na.append({"property_id": pid, "reason": (c or {}).get("reason", "check not built yet (construction in progress; see DESIGN.md §8)")})
        continue
    checks.append({
        "property_id": pid,
        "quick_cmd": f"./check {pid} --tier quick",
        "thorough_cmd": f"./check {pid} --tier thorough",
        "evidence_file": f"/verif/evidence/{pid}.json",
        "replay_cmd_template": f"./check {pid} --replay {{path}}",
        "engine": "lean4-proof+correspondence",
        "level_claimed": {"category": "proof", "text": c["text"], "design_ref": c.get("design_ref", "DESIGN.md §3 " + pid)},
        "level_note": c["note"],
        "technique": c["technique"],
    })
m = {
    "version": 1,
    "setup_cmd": "./check setup",
    "hooks": {"guard": "verif", "enable": "no hooks are needed: every schedule/fault point is reached through objects the public API lets the harness inject (net.Listener, net.Conn, handlers, context)",
              "baseline_off_cmd": "/verif/scripts/baseline.sh", "source_commits": [], "add_only": True},
    "engines": [{"name": "lean4-proof+correspondence", "path": "/verif/check",
                 "serves_properties": [c["property_id"] for c in checks],
                 "kind_free_text": "Lean 4 theorems about a hand-written model (lean/KmipModel) and about tables regenerated from /repo on every run (lean/KmipGen), plus a differential correspondence harness (harness/cmd/kvrun) running model and real code on the same inputs"}],
    "checks": checks,
    "not_applicable": na,
    "notes": "See DESIGN.md. known_findings.json lists recorded defects; fixes made in /repo are 'fix:' commits.",
}
json.dump(m, open(os.path.join(root, "MANIFEST.json"), "w"), indent=1)
print(f"{len(checks)} checks, {len(na)} not claimed")
